"""C06 - a for-loop is equivalent to its textual unrolling.

Two oracles: metamorphic (loads(loop script) vs loads(unrolled script), the
unrolling done by the generator with literals of the declared type) and the
reference interpreter.  Negative cases: use of the loop variable after the
loop, a listed value not of the loop type.
"""
from .. import common, content, gen

ID = "C06"
LEVEL = "exploration"
TECHNIQUE = "runtime metamorphic monitor (loop vs generator-made textual unrolling) plus reference-model monitor; fault injection for leaked variable / wrong-typed value"
RULE = ("scripts with 1-2 loops (int/float ranges with/without step incl. empty and single-iteration; bracketed/parenthesised/bare lists of "
        "int/float/bool/str values and expressions, sometimes a bool among numbers or 0/1 among bools: refused or bound converted), "
        "bodies of 1-4 statements using the variable in modes, arguments (also inside measured-register expressions), keyword arguments, list "
        "elements and array indices, statements before and after, loops reusing a variable name; non-trivial = a loop with >=2 iterations "
        "and >=2 body statements, an empty range, or a negative case; distinct by SHA-1 of the loop script"
        "; negative case: the loop variable's own name inside its value list")
BUDGET = {"quick": 4000, "thorough": 50000}
MIN_NONTRIVIAL = {"quick": 400, "thorough": 4000}
REQUIRED_FUNCTIONS = ["listener.py:BlackbirdListener.exitForloop", "listener.py:BlackbirdListener.enterForloop", "listener.py:BlackbirdListener.exitStatement"]
FUNCTIONS = REQUIRED_FUNCTIONS
REQUIRED_TAGS = ["loop-range", "loop-range-step", "loop-list", "loop-empty", "loop:int", "loop:float", "loop:bool", "loop:str",
                 "neg:use-after-loop", "neg:wrong-type", "neg:own-name-in-value-list", "same-variable-twice", "body:mode", "body:index", "body:kwarg", "body:list", "body:regref", "debatable-value", "loopvar:underscore"]
ASSUMPTIONS = ["the unrolling substitutes the reference value of each loop value, rendered as a bracketed literal of the declared type",
               "for negative cases any exception counts as 'refused'"]
PH = "\x00"

BODIES = {
    "int": [("(%s)", "body:arg"), ("(%s*2, k=%s)", "body:kwarg"), ("(k=[%s, 1])", "body:list"), ("(2**%s)", "body:arg"), ("(%s/2)", "body:arg"),
            ("(1.5, x=-%s)", "body:kwarg"), ("(%s - 1 - 1)", "body:arg"),
            ("(q0 * %s)", "body:regref"), ("(%s*q1 + 0.5, k=q0 - %s)", "body:regref"), ("(k=q2*%s - q10)", "body:regref")],
    "float": [("(%s)", "body:arg"), ("(%s/2, 1)", "body:arg"), ("(k=%s)", "body:kwarg"), ("(sin(%s))", "body:arg"), ("(k=[%s])", "body:list"),
              ("(-%s**2)", "body:arg"), ("(%s*%s, l=[1, %s+0.5])", "body:list"),
              ("(q0 * %s)", "body:regref"), ("(%s + q1/2, 0.25)", "body:regref"), ("(k=%s*q0 - 2*q3)", "body:regref")],
    "bool": [("(%s)", "body:arg"), ("(k=%s)", "body:kwarg"), ("(1, %s)", "body:arg"), ("(k=[%s])", "body:list")],
    "str": [("(%s)", "body:arg"), ("(k=%s)", "body:kwarg"), ("(1, %s)", "body:arg"), ("(k=[%s, \"z\"])", "body:list")],
}


def literal(vt, v):
    if vt == "int":
        return "(%d)" % v
    if vt == "float":
        return "(%r)" % float(v)   # repr keeps the sign of zero
    if vt == "bool":
        return "True" if v else "False"
    return '"%s"' % v


def make_loop(rng, G, var, tags):
    vt = rng.choice(["int", "int", "int", "float", "float", "bool", "str"])
    c = rng.random()
    if vt in ("int", "float") and c < 0.55:
        a = rng.randint(0, 6)
        k = rng.random()
        if k < 0.15:
            b = rng.randint(0, a)  # empty
        elif k < 0.3:
            b = a + 1  # single iteration
        else:
            b = a + rng.randint(2, 7)
        hdr = "%d:%d" % (a, b)
        if rng.random() < 0.45:
            hdr += ":%d" % rng.randint(1, 4)
        if rng.random() < 0.12:
            # multi-digit bounds and steps
            a = rng.choice([0, 7, 10, 95])
            st = rng.choice([10, 12, 25, 100])
            hdr = "%d:%d:%d" % (a, a + st * rng.randint(1, 4) + rng.randint(0, 9), st)
    else:
        n = rng.choice([1, 2, 2, 3, 4, 5])
        if vt == "int":
            vals = [G.int_expr_for(rng.randint(0, 9), depth=rng.choice([0, 0, 1, 2])) for _ in range(n)]
        elif vt == "float":
            vals = [rng.choice([G.float_lit(), G.int_lit(), G.expr(rng.choice([1, 2]), "if")]) for _ in range(n)]
            if rng.random() < 0.15:
                # zeros of both signs, in both orders
                vals = rng.choice([["0.0", "-0.0"], ["-0.0", "0"], ["0", "-0.0", "0.0"], ["-0.0"]]) + vals[:1]
        elif vt == "bool":
            vals = [rng.choice(["True", "False"]) for _ in range(n)]
            if rng.random() < 0.12:
                vals.insert(rng.randrange(len(vals) + 1), rng.choice(["0", "1"]))
                tags.add("debatable-value")
        else:
            vals = [G.string() for _ in range(n)]
        if vt == "int" and rng.random() < 0.06:
            # integers at and beyond the ends of the 64-bit range (delivered as they are written)
            vals.insert(rng.randrange(len(vals) + 1), rng.choice(["9223372036854775808", "-9223372036854775808", "18446744073709551615", "-9223372036854775809", "9223372036854775807", "100000000000000000000"]))
            tags.add("loop-value-beyond-int64")
        if vt in ("int", "float") and rng.random() < 0.1:
            # a bool among numbers: either refused or bound converted to the loop type
            vals.insert(rng.randrange(len(vals) + 1), rng.choice(["True", "False"]))
            tags.add("debatable-value")
        hdr = rng.choice(["[%s]", "(%s)", "%s", "[%s]", "(%s]"]) % ", ".join(vals)
    body = []
    arrs = [(n_, t) for n_, t in G.arrays.items() if not t[3]]
    for _ in range(rng.choice([1, 1, 2, 2, 3, 4])):
        ind = rng.choice(["    ", "    ", "\t"])
        op = G.opname()
        if vt == "int" and rng.random() < 0.45:
            tags.add("body:mode")
            ms = rng.choice(["%s", "[%s, 40]", "(41, %s)", "%s + 1", "[%s*2, 42]"]) % PH
            args = rng.choice(["", "()", "(1)", "(k=2)"])
            body.append(ind + op + args + " | " + ms)
        elif vt == "int" and arrs and rng.random() < 0.3:
            tags.add("body:index")
            an = rng.choice(arrs)[0]
            body.append(ind + "%s(%s[%s]) | %d" % (op, an, PH, rng.randint(0, 9)))
        else:
            t, tag = rng.choice(BODIES[vt])
            tags.add(tag)
            body.append(ind + op + t.replace("%s", PH) + " | " + G.modes_text(G.pick_modes(2)))
    return vt, hdr, body


def build(rng, g):
    G = gen.Gen(rng, g, layout=0.15, hostile_names=0.4, funcs=False, loops=0.0)
    tags = set()
    lines, _ = G.metadata()
    lines.append("")
    for _ in range(rng.choice([0, 1, 2])):
        t = G.decl_scalar(vartype=rng.choice(["int", "float"]), depth=1)
        if t:
            lines.append(t)
    if rng.random() < 0.5:
        t = G.decl_array(vartype=rng.choice(["int", "float"]), rows=rng.choice([1, 2, 3]), cols=rng.choice([3, 4]), param_p=0.0)
        if t:
            lines.extend(t.split("\n"))
    for _ in range(rng.choice([0, 1, 2])):
        lines.append(G.statement(allow_sym=False))
    items = [("line", ln) for ln in lines]
    var = G.ident()
    if rng.random() < 0.25:
        # loop variable names using the whole NAME alphabet
        for cand in (var + "_" + str(rng.randint(0, 9)), rng.choice(["i_", "mode_idx", "n_1", "x_", "a_b_c", "k__2"])):
            if G.is_name(cand) and cand not in G.used:
                var = cand
                G.used.add(cand)
                tags.add("loopvar:underscore")
                break
    nloops = rng.choice([1, 1, 2])
    for li in range(nloops):
        if li == 1:
            if rng.random() < 0.6:
                tags.add("same-variable-twice")
            else:
                var = G.ident()
        vt, hdr, body = make_loop(rng, G, var, tags)
        items.append(("loop", var, vt, hdr, body))
        for _ in range(rng.choice([0, 1, 2])):
            items.append(("line", G.statement(allow_sym=False)))
    return items, tags, var


def render_loop(items, extra=()):
    out = []
    for it in items:
        if it[0] == "line":
            out.append(it[1])
        else:
            _, var, vt, hdr, body = it
            out.append("for %s %s in %s" % (vt, var, hdr))
            out.extend(b.replace(PH, var) for b in body)
    out.extend(extra)
    return "\n".join(out) + "\n"


def render_unrolled(items, loop_values):
    out = []
    li = 0
    for it in items:
        if it[0] == "line":
            out.append(it[1])
        else:
            _, var, vt, hdr, body = it
            for v in loop_values[li]:
                out.extend(b.strip(" \t").replace(PH, literal(vt, v)) for b in body)
            li += 1
    return "\n".join(out) + "\n"


def check_positive(ctx, items, tags):
    text = render_loop(items)
    kind = common.classify(text, convert_debatable=True)
    witness = {"text": text}
    if kind[0] == "ood":
        return ctx.out_of_domain(kind[1].split(" (")[0])
    if kind[0] in ("nosentence", "ill"):
        return ctx.out_of_domain("generator produced an invalid script (%s)" % (kind[0] if kind[0] == "nosentence" else kind[1].kind))
    if kind[0] == "refbug":
        return ctx.violation("machinery:refbug", kind[1], witness)
    ref = kind[1]
    values = [lp[2] for lp in ref.loops]
    unrolled = render_unrolled(items, values)
    witness["unrolled"] = unrolled
    k2 = common.classify(unrolled)
    if k2[0] != "ok":
        return ctx.out_of_domain("unrolled script not valid/in domain (%s)" % k2[0])
    nbody = max(len(it[4]) for it in items if it[0] == "loop")
    nt = any(lp[3] >= 2 for lp in ref.loops) and nbody >= 2 or any(lp[3] == 0 for lp in ref.loops)
    ctx.case(text, nt, tags=[f for f in ref.features if f.startswith("loop")] + sorted(tags))
    ctx.sample({"loop_script": text, "unrolled": unrolled}, limit=1)
    p1, exc = common.real_loads(text)
    if exc is not None and "loop-debatable" in ref.features:
        # a bool listed among numbers (or 0/1 among bools) may be refused
        return ctx.observe("debatable loop value refused with " + type(exc).__name__)
    if exc is not None:
        return ctx.violation("raises:" + common.exc_key(exc), "loads(loop script) raised %s" % common.exc_text(exc), witness)
    if "loop-debatable" in ref.features:
        ctx.observe("debatable loop value accepted: bound value must be the converted one")
    p2, exc = common.real_loads(unrolled)
    if exc is not None:
        return ctx.violation("unrolled-raises:" + common.exc_key(exc), "loads(unrolled script) raised %s" % common.exc_text(exc), witness)
    c1, c2 = content.program_content(p1), content.program_content(p2)
    d = content.diff_real(c1, c2, content.Cfg(numbers="ulps", rtol=1e-10, seed="C06"))
    if d:
        return ctx.violation("unroll:" + common.diff_key(d), "loop vs unrolled: " + common.diff_text(d), witness)
    d = content.diff_ref(ref, c1, seed="C06")
    if d:
        return ctx.violation("ref:" + common.diff_key(d), "loop vs reference: " + common.diff_text(d), witness)
    for it in items:
        if it[0] == "loop" and it[1] in p1.variables:
            return ctx.violation("loop-variable-in-variables", "loop variable %r is among the program's variables after loading" % it[1], witness)


def check_negative(ctx, text, tag, expect_kind):
    kind = common.classify(text)
    witness = {"text": text, "negative": tag}
    if kind[0] != "ill" or kind[1].kind != expect_kind:
        return ctx.out_of_domain("negative case not ill-formed as intended (%s)" % (kind[0] if kind[0] != "ill" else kind[1].kind))
    ctx.case(text, True, tags=[tag])
    ctx.sample({"negative": text, "fault": tag}, limit=1)
    p, exc = common.real_loads(text)
    if exc is None:
        ctx.violation("accepted:" + tag, "script with fault %s returned a program with operations %s" % (tag, [content.show(o) for o in p.operations][:6]), witness)
    else:
        ctx.observe("refused with " + type(exc).__name__)


def run(ctx):
    g = common.grammar()
    if ctx.worker == 0:
        for e in common.corpus(ID):
            if e.get("negative"):
                check_negative(ctx, e["text"], e["negative"], e["kind"])
            else:
                replay_positive(ctx, e["text"], e["unrolled"])
    n = ctx.share(BUDGET[ctx.tier])
    for i in range(n):
        rng = ctx.rng(i)
        try:
            items, tags, var = build(rng, g)
        except RuntimeError:
            ctx.out_of_domain("generator gave up")
            continue
        c = rng.random()
        if c < 0.06:
            # the loop variable's own name inside its value list (second position or later): the values are what is
            # written before the loop runs, where that name is not defined
            its = list(items)
            idx = [i_ for i_, it in enumerate(its) if it[0] == "loop"][0]
            _, var_, vt, hdr, body = its[idx]
            if vt in ("int", "float"):
                first = rng.choice(["1", "2", "0"]) if vt == "int" else rng.choice(["0.5", "1.5"])
                rest = [rng.choice(["%s + 1", "%s", "2 * %s", "%s - 1"]) % var_ for _ in range(rng.choice([1, 2]))]
                lst = ", ".join([first] + rest)
                its[idx] = ("loop", var_, vt, rng.choice(["[%s]", "(%s)", "%s"]) % lst, body)
                check_negative(ctx, render_loop(its), "neg:own-name-in-value-list", "undefined")
            else:
                ctx.out_of_domain("own-name negative needs a numeric loop")
        elif c < 0.15:
            # the last loop's variable used after the loop
            last = [it for it in items if it[0] == "loop"][-1]
            use = rng.choice(["G(%s) | 0", "G | %s", "G(k=%s) | 1", "G(k=[%s]) | 1", "G(1 + %s) | 2"]) % last[1]
            check_negative(ctx, render_loop(items, extra=[use]), "neg:use-after-loop", "undefined")
        elif c < 0.3:
            its = list(items)
            idx = [i for i, it in enumerate(its) if it[0] == "loop"][-1]
            _, var_, vt, hdr, body = its[idx]
            bad = {"int": rng.choice(['"abc"', "2.5", "0.5 + 1", '"3"', "250.001", "100000.5", "160001/4"]), "float": rng.choice(['"x"', '"1.5"', "2j"]),
                   "bool": None, "str": rng.choice(["3", "1.5", "2 + 2"])}[vt]
            if bad is None:
                ctx.out_of_domain("no clear wrong-typed value for bool loops")
                continue
            good = {"int": "1", "float": "0.5", "str": '"s"'}[vt]
            vals = [good, bad] if rng.random() < 0.5 else [bad, good, good]
            its[idx] = ("loop", var_, vt, rng.choice(["[%s]", "%s", "(%s)"]) % ", ".join(vals), body)
            check_negative(ctx, render_loop(its), "neg:wrong-type", "loop-type")
        else:
            check_positive(ctx, items, tags)


def replay_positive(ctx, text, unrolled):
    witness = {"text": text, "unrolled": unrolled}
    kind = common.classify(text)
    if kind[0] != "ok":
        return ctx.out_of_domain("corpus entry not valid per reference: %s" % (kind[0],))
    ctx.case(text, True, tags=["corpus"])
    p1, exc = common.real_loads(text)
    if exc is not None:
        return ctx.violation("raises:" + common.exc_key(exc), "loads(loop script) raised %s" % common.exc_text(exc), witness)
    p2, exc = common.real_loads(unrolled)
    if exc is not None:
        return ctx.violation("unrolled-raises:" + common.exc_key(exc), "loads(unrolled script) raised %s" % common.exc_text(exc), witness)
    c1, c2 = content.program_content(p1), content.program_content(p2)
    d = content.diff_real(c1, c2, content.Cfg(numbers="ulps", rtol=1e-10, seed="C06"))
    if d:
        return ctx.violation("unroll:" + common.diff_key(d), "loop vs unrolled: " + common.diff_text(d), witness)
    d = content.diff_ref(kind[1], c1, seed="C06")
    if d:
        return ctx.violation("ref:" + common.diff_key(d), "loop vs reference: " + common.diff_text(d), witness)


def replay(w):
    class C:
        res = None

        def out_of_domain(self, r):
            pass

        def case(self, *a, **k):
            pass

        def sample(self, *a, **k):
            pass

        def observe(self, *a, **k):
            pass

        def violation(self, key, summary, witness):
            self.res = "%s: %s" % (key, summary)

    c = C()
    if w.get("negative"):
        kind = {"neg:use-after-loop": "undefined", "neg:wrong-type": "loop-type", "neg:own-name-in-value-list": "undefined"}[w["negative"]]
        check_negative(c, w["text"], w["negative"], kind)
    else:
        replay_positive(c, w["text"], w["unrolled"])
    return c.res
