"""C04 - instantiating a template equals substituting values into its text.

Metamorphic monitor, both sides computed by the real code: ``P(**vals)`` versus
``loads(text[{p} := (value)])``; the reference interpreter independently
supplies the written parameter names and the domain (division by zero,
catastrophic cancellation) of the substituted script.
"""
import keyword
import re

from .. import common, content, gen
from ..refsem import Arr, Sym
from ..refnum import V

ID = "C04"
LEVEL = "exploration"
TECHNIQUE = "runtime metamorphic monitor: template call vs textual substitution, reference interpreter supplies parameter names and conditioning"
RULE = ("random templates with {p} in positional/keyword/list/scalar-initialiser/array-element/whole-array/loop-body positions and adversarial "
        "names; random finite generic values (2-D lists for whole-array parameters); instance compared with the loaded substituted script "
        "(operations and variables, relative 1e-8 on well-conditioned values); parameter set, is_template, no parameters left, missing "
        "value -> ValueError; non-trivial = at least 2 distinct parameters in at least 2 kinds of position; distinct by SHA-1 of text+values"
        '; every 25th case an integer base raised to elements of a whole-array parameter (Python and NumPy values); parameters inside int arrays get integer values')
BUDGET = {"quick": 3000, "thorough": 40000}
MIN_NONTRIVIAL = {"quick": 300, "thorough": 3000}
REQUIRED_FUNCTIONS = ["program.py:BlackbirdProgram.__call__", "program.py:BlackbirdProgram.is_template", "listener.py:BlackbirdListener.exitProgram"]
FUNCTIONS = REQUIRED_FUNCTIONS + ["listener.py:BlackbirdListener.exitArrayvar", "program.py:BlackbirdProgram.__call__.<locals>.substitute"]
REQUIRED_TAGS = ["param-arg", "param-in-list", "scalar-param", "array-element-param", "array-whole-param", "pos:kwarg", "pos:loop"]
ASSUMPTIONS = ["parameter values are substituted as parenthesised repr() literals, which round-trip exactly",
               "a case is in domain when the reference evaluates the substituted script with relative error bound <= 1e-10 everywhere"]
KNOWN = ("function-of-parameter", "python-keyword-parameter-name")


def options_for(rng):
    return dict(
        params=rng.choice([0.15, 0.3, 0.45]),
        regrefs=rng.choice([0.0, 0.0, 0.15]),   # measured-register arguments next to parameter arguments
        loops=rng.choice([0.0, 0.3]),
        arrays=rng.choice([0.3, 0.7]),
        kwlists=rng.choice([0.3, 0.6]),
        options=0.2,
        layout=0.1,
        hostile_names=rng.choice([0.3, 0.9]),
        array_params=rng.choice([0.0, 0.2, 0.4]),
        pykw_params=rng.choice([0.0, 0.0, 0.0, 0.1]),
        func_of_param=rng.choice([0.0, 0.0, 0.0, 0.1]),
        funcs=rng.random() < 0.4,
        complex=rng.random() < 0.5,
        brace_strings=False,    # the textual substitution of {p} must not meet braces inside string literals
    )


def add_whole_array(rng, text, g):
    """Insert a whole-array parameter declaration and a use of it after the metadata."""
    lines = text.split("\n")
    r, c = rng.choice([(1, 1), (1, 2), (2, 2), (2, 3), (3, 1), (1, 12), (11, 2), (3, 11)] if rng.random() < 0.3 else [(1, 1), (1, 2), (2, 2), (2, 3), (3, 1)])
    nm = "W" + str(rng.randint(0, 9))
    pn = rng.choice(["U", "mat", "M1", "p3", "ww"])
    decl = ["%s array %s[%d, %d] =" % (rng.choice(["float", "complex"]), nm, r, c), "    {%s}" % pn]
    use = "Interferometer(%s) | 0" % nm if rng.random() < 0.6 else "G(%s[%d], k=%s) | 1" % (nm, rng.randrange(r * c), nm)
    # after the metadata block: first blank line or end of metadata
    i = 2
    while i < len(lines) and lines[i].startswith(("target", "type", "#")):
        i += 1
    return "\n".join(lines[:i] + [""] + decl + [use] + lines[i:]), pn, (r, c)


def value_for(rng):
    c = rng.random()
    if c < 0.2:
        return rng.choice([1, 2, 3, 5, -1, -2, 7])
    return rng.choice([-1, 1]) * round(rng.uniform(0.3, 3.0), rng.choice([1, 3, 15]))


def substitute(text, vals):
    out = []
    for ln in text.split("\n"):
        m = re.fullmatch(r"(\s+)\{(\w+)\}\s*", ln)
        if m and isinstance(vals.get(m.group(2)), list):
            for row in vals[m.group(2)]:
                out.append(m.group(1) + ", ".join("(%r)" % x for x in row))
            continue
        out.append(re.sub(r"\{(\w+)\}", lambda mm: "(%r)" % (vals[mm.group(1)],), ln))
    return "\n".join(out)


def positions(ref):
    pos = set()
    for o in ref.ops:
        for a in (o.args or []):
            if isinstance(a, Sym):
                pos.add("pos:positional")
            if isinstance(a, Arr) and a.has_sym():
                pos.add("pos:array-arg")
        for _, a in (o.kwargs or []):
            if isinstance(a, Sym):
                pos.add("pos:kwarg")
            if isinstance(a, list) and any(isinstance(x, Sym) for x in a):
                pos.add("pos:list")
            if isinstance(a, Arr) and a.has_sym():
                pos.add("pos:array-arg")
    for v in ref.vars.values():
        if isinstance(v, Sym):
            pos.add("pos:scalar-init")
        if isinstance(v, Arr) and v.has_sym():
            pos.add("pos:array-element")
    if "loop" in ref.features and "param" in ref.features:
        pos.add("pos:loop")
    return pos


def well_conditioned(ref):
    st = []
    for o in ref.ops:
        st.extend(o.args or [])
        st.extend(a for _, a in (o.kwargs or []))
    st.extend(ref.vars.values())
    while st:
        v = st.pop()
        if isinstance(v, list):
            st.extend(v)
        elif isinstance(v, Arr):
            st.extend(v.flat())
        elif isinstance(v, V) and v.k in "fc":
            if v.e > 1e-10 * abs(complex(v.v)) and v.e > 1e-290:
                return False
    return True


def template_well_conditioned(prog, full):
    """The loaded template holds SymPy expressions, and SymPy orders and folds the
    terms of a sum as it likes (`7 - {c} - 3e-3**pi` becomes `-c + 6.99999998813842`),
    so the cancellation the property excludes has to be judged on *those* sums:
    for every sum in every symbolic value, the terms at the given parameter
    values must not be more than 1e5 times larger than the sum (that keeps the
    rounding of the largest term below the comparison tolerance of 1e-8)."""
    import re

    import sympy as sym

    def value_of(name):
        v = full.get(name)
        if v is not None and not isinstance(v, list):
            return v
        m = re.match(r"(.+)_(\d+)_(\d+)$", name)
        if m and isinstance(full.get(m.group(1)), list):
            try:
                return full[m.group(1)][int(m.group(2))][int(m.group(3))]
            except (IndexError, TypeError):
                return None
        return None

    def exprs(v):
        if isinstance(v, sym.Expr):
            yield v
        elif isinstance(v, (list, tuple)):
            for x in v:
                yield from exprs(x)
        elif hasattr(v, "dtype") and v.dtype == object:
            for x in v.flatten():
                yield from exprs(x)

    vals = []
    for op in prog.operations:
        vals.extend(op.get("args", []) or [])
        vals.extend((op.get("kwargs", {}) or {}).values())
    vals.extend(prog.variables.values())
    for e in (x for v in vals for x in exprs(v)):
        sub = {}
        for s_ in e.free_symbols:
            val = value_of(str(s_))
            if val is None:
                sub = None
                break
            sub[s_] = sym.Float(val, 17) if not isinstance(val, complex) else sym.sympify(val)
        if sub is None:
            continue
        for node in sym.preorder_traversal(e):
            if not node.is_Add:
                continue
            try:
                if content.out_of_machine_range(node, sub):
                    continue
                terms = [complex(t.xreplace(sub).evalf(20)) for t in node.args]
            except Exception:
                continue
            total = abs(sum(terms))
            big = sum(abs(t) for t in terms)
            if big > 0 and total < 1e-5 * big:
                return False
    return True


def numpy_equals_python(ctx, prog, full, sub_text, text, witness):
    """An integer raised to a negative integer power: the reference does not judge the value (section 1.2), but the
    statement still ties every instance to the one substituted script, so an instance made from NumPy-typed values and
    one made from the equal Python values must agree whenever the substituted script loads and the Python-typed
    instantiation succeeds."""
    import numpy as np

    def as_numpy(v):
        if isinstance(v, list):
            return np.array(v)
        if isinstance(v, bool):
            return v
        if isinstance(v, int):
            return np.int64(v)
        if isinstance(v, float):
            return np.float64(v)
        return v

    sub, exc = common.real_loads(sub_text)
    if exc is not None:
        return
    try:
        a = prog(**full)
    except Exception:
        return
    ctx.case(text + repr(sorted(full.items())) + "/np-vs-py", True, tags=["numpy-vs-python-values"])
    ctx.hook("instantiated with NumPy values")
    try:
        b = prog(**{k_: as_numpy(v_) for k_, v_ in full.items()})
    except Exception as e:
        return ctx.violation("numpy-values:call-raises:" + common.exc_key(e), "P(**values) succeeds with Python numbers but raised %s with the same values as NumPy scalars/arrays" % common.exc_text(e), witness)
    d = content.diff_real(content.program_content(a), content.program_content(b), content.Cfg(numbers="close", rtol=1e-9, seed="C04n", array_dtype=False), variables=True)
    if d:
        ctx.violation("numpy-values:" + common.diff_key(d), "instances from Python and from NumPy values differ: " + common.diff_text(d), witness)


def check_case(ctx, text, vals, whole=None, tags=()):
    """whole: {param name: (rows, cols)} for whole-array parameters."""
    kind = common.classify(text, allow_func=True)
    if kind[0] == "ood":
        ctx.out_of_domain(kind[1].split(" (")[0])
        return
    if kind[0] in ("nosentence", "ill"):
        ctx.out_of_domain("generator produced an invalid template (%s)" % kind[0])
        return
    if kind[0] == "refbug":
        ctx.violation("machinery:refbug", kind[1], {"text": text})
        return
    ref = kind[1]
    if "param-in-unexecuted-loop" in ref.features:
        ctx.out_of_domain("parameter in a loop body that never executes")
        return
    written = ref.param_names()
    func_of_sym = "function-of-symbol" in ref.features
    witness = {"text": text, "vals": vals, "whole": whole}
    prog, exc = common.real_loads(text)
    if exc is not None:
        if func_of_sym and type(exc).__name__ == "TypeError":
            ctx.case(text, False, tags=["function-of-parameter"])
            ctx.violation("function-of-parameter", "loads() raised %s for a template applying a function to a parameter" % common.exc_text(exc), witness)
            return
        ctx.case(text, False)
        ctx.violation("load-raises:" + common.exc_key(exc), "loads() raised %s on a valid template" % common.exc_text(exc), witness)
        return
    if func_of_sym:
        ctx.out_of_domain("function of a parameter (loaded; not instantiated here)")
        return
    # complete the assignment
    names = set()
    for p in written:
        names.add(p)
    full = {}
    wh = whole or {}
    for p in written:
        m = re.fullmatch(r"(\w+?)_(\d+)_(\d+)", p)
        if m and m.group(1) in wh:
            continue
        if p not in vals:
            return ctx.out_of_domain("value missing for a written parameter (generator)")
        full[p] = vals[p]
    for k in wh:
        full[k] = vals[k]
    sub_text = substitute(text, full)
    k2 = common.classify(sub_text)
    if k2[0] == "ood":
        if k2[1].startswith("int ** negative int") and set(prog.parameters) == set(written) and written:
            numpy_equals_python(ctx, prog, full, sub_text, text, witness)
        ctx.out_of_domain("substituted script: " + k2[1].split(" (")[0])
        return
    if k2[0] != "ok":
        ctx.out_of_domain("substituted script is not valid (%s)" % k2[0])
        return
    if not well_conditioned(k2[1]):
        ctx.out_of_domain("substituted script is ill-conditioned (cancellation)")
        return
    pos = positions(ref)
    nt = len(written) >= 2 and len(pos) >= 2
    ctx.case(text + repr(sorted(full.items())), nt, tags=[f for f in ref.features if f.startswith(("param", "array-", "scalar-param", "loop", "kwarg-list"))] + sorted(pos) + list(tags))
    ctx.sample({"template": text, "values": full}, limit=1)
    # 1. reported parameters
    if set(prog.parameters) != set(written):
        ctx.violation("parameters-reported", "parameters reported %s, written %s" % (sorted(prog.parameters), sorted(written)), witness)
        return
    if bool(prog.is_template()) != bool(written):
        ctx.violation("is-template", "is_template()=%s with written parameters %s" % (prog.is_template(), sorted(written)), witness)
        return
    if not written:
        return
    # 2. instantiate (now and then with the same values as NumPy scalars / arrays, as computed call-site values are)
    call_vals = full
    if "numpy-values" in tags or ctx.rng("numpy-values", text).random() < 0.25:
        import numpy as np

        def as_numpy(v):
            if isinstance(v, list):
                return np.array(v)
            if isinstance(v, bool):
                return v
            if isinstance(v, int):
                return np.int64(v)
            if isinstance(v, float):
                return np.float64(v)
            return v

        call_vals = {k_: as_numpy(v_) for k_, v_ in full.items()}
        ctx.hook("instantiated with NumPy values")
    try:
        inst = prog(**call_vals)
    except Exception as e:
        if (any(keyword.iskeyword(p) for p in written) and type(e).__name__ in ("TypeError", "SyntaxError")) or (
                "self" in written and isinstance(e, TypeError) and "multiple values for argument 'self'" in str(e)):
            ctx.violation("python-keyword-parameter-name", "instantiation raised %s for a parameter named like a Python keyword" % common.exc_text(e), witness)
            return
        ctx.violation("call-raises:" + common.exc_key(e), "P(**values) raised %s" % common.exc_text(e), witness)
        return
    if inst.parameters or inst.is_template():
        ctx.violation("instance-has-parameters", "instance still reports parameters %s" % sorted(inst.parameters), witness)
        return
    if not template_well_conditioned(prog, full):
        ctx.observe("values compared loosely: a sum in the loaded template cancels at these values")
        return ctx.out_of_domain("a sum of the loaded template cancels catastrophically at these values")
    sub, exc = common.real_loads(sub_text)
    if exc is not None:
        ctx.violation("substituted-raises:" + common.exc_key(exc), "loading the substituted script raised %s" % common.exc_text(exc), witness)
        return
    cfg = content.Cfg(numbers="close", rtol=1e-8, seed="C04", array_dtype=False)
    d = content.diff_real(content.program_content(inst), content.program_content(sub), cfg, variables=True, skip=("parameters",))
    if d:
        ctx.violation(common.diff_key(d), "instance vs substituted script: " + common.diff_text(d), witness)
        return
    # 2b. the same loaded template instantiated again with other values (each call must stand alone)
    full2 = {}
    for k_, v_ in full.items():
        full2[k_] = [[x * 1.5 + 0.25 for x in row] for row in v_] if isinstance(v_, list) else (v_ * 1.5 + 0.25)
    sub2_text = substitute(text, full2)
    k3 = common.classify(sub2_text)
    if k3[0] == "ok" and well_conditioned(k3[1]) and template_well_conditioned(prog, full2):
        try:
            inst2 = prog(**full2)
        except Exception as e:
            return ctx.violation("second-call-raises:" + common.exc_key(e), "the second instantiation of the same template raised %s" % common.exc_text(e), dict(witness, vals2=full2))
        sub2, exc = common.real_loads(sub2_text)
        if exc is None:
            d = content.diff_real(content.program_content(inst2), content.program_content(sub2), cfg, variables=True, skip=("parameters",))
            if d:
                return ctx.violation("second-call:" + common.diff_key(d), "second instantiation (values %s) vs substituted script: %s" % (full2, common.diff_text(d)), dict(witness, vals2=full2))
            ctx.observe("second instantiation compared")
    # 3. a missing value is refused with ValueError
    drop = sorted(full)[ctx_choice(text, len(full))]
    partial = {k: v for k, v in full.items() if k != drop}
    try:
        prog(**partial)
        ctx.violation("missing-value-accepted", "instantiation without a value for %r returned a program" % drop, witness)
    except ValueError:
        ctx.observe("missing value refused with ValueError")
    except Exception as e:
        if keyword.iskeyword(drop) or any(keyword.iskeyword(p) or p == "self" for p in partial):
            ctx.observe("missing-value probe skipped (python keyword name)")
        else:
            ctx.violation("missing-value-wrong-exception:" + type(e).__name__, "instantiation without a value for %r raised %s, not ValueError" % (drop, common.exc_text(e)), witness)
    # 4. the template itself is unchanged by the call (also C13)
    if set(prog.parameters) != set(written):
        ctx.violation("template-changed-by-call", "template parameters changed by instantiation", witness)


def ctx_choice(text, n):
    import hashlib

    return int(hashlib.sha1(text.encode()).hexdigest(), 16) % n


def build(rng, g):
    text, info = gen.script(rng, g, n_stmts=(2, 9), **options_for(rng))
    whole = {}
    if rng.random() < 0.25:
        text, pn, shape = add_whole_array(rng, text, g)
        whole[pn] = shape
    if rng.random() < 0.25:
        # expressions over one parameter that differ only in a small integer (anything keyed on "almost the expression" confuses them)
        ps = sorted(set(re.findall(r"\{(\w+)\}", text)))
        p_ = rng.choice(ps) if ps else "nd"
        forms = ["-{%s}", "-2*{%s}", "{%s} - 1", "{%s} - 2", "{%s}**-1", "{%s}**-2", "{%s} + 1", "{%s} + 2", "2*{%s}", "3*{%s}", "{%s}/2", "{%s}/3"]
        pick_ = rng.sample(forms, rng.randint(3, 6))
        text = text.rstrip("\n") + "\nNearDup(%s) | 0\nNearDup2(k=%s) | 1\n" % (", ".join(f % p_ for f in pick_), rng.choice(forms) % p_)
    names = set(re.findall(r"\{(\w+)\}", text))
    vals = {}
    for n in sorted(names):
        if n in whole:
            r, c = whole[n]
            vals[n] = [[value_for(rng) for _ in range(c)] for _ in range(r)]
        elif n in info["gen"].int_params:
            vals[n] = rng.choice([1, 2, 3, 5, -1, -2, 7, 0, 12, -40])     # an element of an int array
        else:
            vals[n] = value_for(rng)
    return text, vals, whole


def run(ctx):
    g = common.grammar()
    if ctx.worker == 0:
        for e in common.corpus(ID):
            check_case(ctx, e["text"], e["vals"], e.get("whole"), tags=["corpus"] + (["numpy-values"] if e.get("numpy") else []))
    n = ctx.share(BUDGET[ctx.tier])
    for i in range(n):
        rng = ctx.rng(i)
        try:
            text, vals, whole = build(rng, g)
        except RuntimeError:
            ctx.out_of_domain("generator gave up")
            continue
        check_case(ctx, text, vals, whole)
        if i % 25 == 7:
            # integer bases raised to parameters that receive negative integers (scalars and elements of a whole-array
            # parameter): literal integers are Python integers, so the substituted script has a value
            G_ = gen.Gen(rng, g, layout=0.0)
            n1, n2, an, pn = G_.ident(), G_.ident(), G_.ident(), G_.ident()
            cols = rng.choice([2, 3])
            t_ = ("name pw\nversion 1.0\nfloat array %s[1, %d] =\n    {%s}\nG(%d**%s[%d], {%s}, k=%d**%s[0]) | 0\nH(%s, 2 * {%s}) | [1, 2]\n"
                  % (an, cols, pn, rng.choice([2, 3, 10]), an, rng.randrange(cols), n1, rng.choice([2, 4]), an, an, n2))
            v_ = {n1: rng.choice([-1, -2, -3, 2]), n2: rng.choice([-1, -2, 1]), pn: [[rng.choice([-3, -2, -1, 2]) for _ in range(cols)]]}
            check_case(ctx, t_, v_, {pn: [1, cols]}, tags=["int-base-negative-int-power"] + (["numpy-values"] if rng.random() < 0.6 else []))


def replay(w):
    class C:
        res = None

        def out_of_domain(self, r):
            self.ood = r

        def case(self, *a, **k):
            pass

        def sample(self, *a, **k):
            pass

        def observe(self, *a, **k):
            pass

        def violation(self, key, summary, witness):
            if self.res is None:
                self.res = "%s: %s" % (key, summary)

    c = C()
    whole = {k: tuple(v) for k, v in (w.get("whole") or {}).items()}
    check_case(c, w["text"], w["vals"], whole)
    return c.res
