"""C05 - variables have their declared type; arrays keep written layout and shape.

Reference-model monitor on ``program.variables`` and on the arguments delivered
for every in-range index ``A[k]``; negative cases (ragged rows, contradicted
shape incl. transposed declarations of equal size) must be refused.
"""
import os

from .. import common, content, gen

ID = "C05"
LEVEL = "exploration"
TECHNIQUE = "runtime reference-model monitor on program.variables and on A[k] arguments; fault injection for ragged/contradicted arrays"
RULE = ("scripts declaring scalars of all five types (type-compatible parameter-free initialisers) and int/float/complex arrays r x c "
        "(1<=r<=5, 1<=c<=6; with/without declared shape; with/without bare parameters at random positions), every in-range index used as "
        "an argument; plus negative cases: one row longer/shorter (incl. size-preserving), declared shape != actual (incl. transposed); "
        "non-trivial = a positive case with an array of >=2 rows and >=2 columns or with parameter elements, or any negative case; distinct by SHA-1"
        '; float initialisers of int scalars / int-array elements where the conversion is exact (reference rule 13); every eighth valid script once more with an include line, through load()')
BUDGET = {"quick": 5000, "thorough": 60000}
MIN_NONTRIVIAL = {"quick": 500, "thorough": 5000}
REQUIRED_FUNCTIONS = ["listener.py:BlackbirdListener.exitExpressionvar", "listener.py:BlackbirdListener.exitArrayvar", "auxiliary.py:_expression"]
FUNCTIONS = REQUIRED_FUNCTIONS
REQUIRED_TAGS = ["scalar:int", "scalar:float", "scalar:complex", "scalar:bool", "scalar:str", "array:int", "array:float", "array:complex",
                 "array-shape", "array-element-param", "expr:arrayidx", "neg:ragged", "neg:ragged-size-preserving", "neg:shape", "neg:shape-transposed", "neg:shape-other-rank"]
ASSUMPTIONS = ["layout model of the reference interpreter (DESIGN Appendix A rules 5 and 6)",
               "for negative cases any exception counts as 'rejected'"]


def build_positive(rng, g):
    G = gen.Gen(rng, g, layout=0.2, hostile_names=0.4, funcs=rng.random() < 0.3)
    lines, _ = G.metadata(target=False, ptype=False)
    lines.append("")
    order = []
    for vt in rng.sample(["int", "float", "complex", "bool", "str"], rng.randint(1, 5)):
        order.append(("s", vt))
    for _ in range(rng.randint(1, 3)):
        order.append(("a", rng.choice(["int", "float", "complex"])))
    rng.shuffle(order)
    arrays = []
    for kind, vt in order:
        if kind == "s":
            t = G.decl_scalar(vartype=vt, depth=rng.choice([0, 1, 2]))
            if t:
                lines.append(t)
        else:
            rows, cols = rng.randint(1, 5), rng.randint(1, 6)
            pp = rng.choice([0.0, 0.0, 0.25, 0.6])
            t = G.decl_array(vartype=vt, rows=rows, cols=cols, shape=rng.random() < 0.5, param_p=pp)
            if t:
                lines.extend(t.split("\n"))
                arrays.append(t.split("\n")[0].split()[2].split("[")[0])
    for nm in arrays:
        vt, rows, cols, hp = G.arrays[nm]
        idx = list(range(rows * cols))
        args = ", ".join("%s[%s]" % (nm, G.int_expr_for(k, depth=rng.choice([0, 0, 1]))) for k in idx)
        lines.append("G(%s) | 0" % args)
        lines.append("H(%s, k=%s) | [1, 2]" % (nm, nm))
    for nm in arrays:
        if rng.random() < 0.3:
            # declare the array again (same size, new values) and read every element again
            vt, rows, cols, hp = G.arrays[nm]
            t = G.decl_array(vartype=vt, rows=rows, cols=cols, name=nm, shape=rng.random() < 0.5, param_p=0.0)
            if t:
                lines.extend(t.split("\n"))
                lines.append("G2(%s) | 0" % ", ".join("%s[%d]" % (nm, k) for k in range(rows * cols)))
    for nm, vt in list(G.scalars.items()):
        lines.append("S(%s) | 3" % nm)
    return gen.render(lines, rng, layout=0.2), G


def build_negative(rng, g):
    G = gen.Gen(rng, g, layout=0.0)
    lines, _ = G.metadata(target=False, ptype=False)
    vt = rng.choice(["int", "float", "complex"])
    nm = G.ident()
    mode = rng.choice(["ragged", "ragged", "shape"])
    tag = []
    if mode == "ragged":
        rows = rng.randint(2, 5)
        cols = rng.randint(1, 5)
        lens = [cols] * rows
        if rng.random() < 0.5:
            # size-preserving: total stays a multiple of the row count
            i, j = rng.sample(range(rows), 2)
            d = rng.randint(1, max(1, lens[j] - 1)) if lens[j] > 1 else 0
            if d == 0:
                lens[i] += rows
            else:
                lens[i] += d
                lens[j] -= d
            tag.append("neg:ragged-size-preserving" if sum(lens) % rows == 0 else "neg:ragged")
        else:
            i = rng.randrange(rows)
            lens[i] = max(1, lens[i] + rng.choice([-1, 1, 2, rows]))
            if len(set(lens)) == 1:
                lens[i] += 1
            tag.append("neg:ragged-size-preserving" if sum(lens) % rows == 0 else "neg:ragged")
        tag.append("neg:ragged")
        shape = ""
        if rng.random() < 0.3:
            shape = "[%d, %d]" % (rows, sum(lens) // rows if sum(lens) % rows == 0 else cols)
    else:
        rows, cols = rng.randint(1, 5), rng.randint(1, 6)
        lens = [cols] * rows
        choices = [(rows, cols + 1), (rows + 1, cols), (rows * cols, 1), (1, rows * cols), (cols, rows)]
        choices = [c for c in choices if c != (rows, cols)]
        sh = rng.choice(choices)
        shape = "[%d, %d]" % sh
        tag.append("neg:shape")
        if sh[0] * sh[1] == rows * cols:
            tag.append("neg:shape-transposed")
        if rng.random() < 0.2:
            # a declared shape with one or three numbers (the first two may even agree with the written rows and columns)
            shape = rng.choice(["[%d, %d, %d]" % (rows, cols, rng.choice([1, 2])), "[%d]" % (rows * cols), "[%d, %d, 1, 1]" % (rows, cols)])
            tag[:] = ["neg:shape", "neg:shape-other-rank"]
    lines.append("%s array %s%s =" % (vt, nm, shape))
    for L in lens:
        els = []
        for _ in range(L):
            els.append(G.int_lit() if vt == "int" else G.num_lit({"float": "if", "complex": "ifc"}[vt]))
        lines.append("    " + ", ".join(els))
    lines.append("G(%s) | 0" % nm)
    return "\n".join(lines) + "\n", tag


def check_text(ctx, text, tags=(), expect_negative=False):
    kind = common.classify(text)
    witness = {"text": text}
    if kind[0] == "ood":
        ctx.out_of_domain(kind[1].split(" (")[0])
        return
    if kind[0] == "nosentence":
        ctx.out_of_domain("generator produced a non-sentence")
        return
    if kind[0] == "refbug":
        ctx.violation("machinery:refbug", kind[1], witness)
        return
    if kind[0] == "ill":
        e = kind[1]
        if e.kind not in ("ragged-array", "array-shape-mismatch"):
            ctx.out_of_domain("ill-formed for another reason: " + e.kind)
            return
        ctx.case(text, True, tags=list(tags) + ["negative:" + e.kind])
        ctx.sample({"negative": text}, limit=1)
        prog, exc = common.real_loads(text)
        if exc is None:
            ctx.violation("accepted:" + e.kind, "array %r accepted although the reference finds it ill-formed (%s); variables=%s" % (e.name, e.kind, {k: content.show(v) for k, v in prog.variables.items()}), witness)
        else:
            ctx.observe("rejected with " + type(exc).__name__)
        return
    if expect_negative:
        ctx.out_of_domain("negative generator produced a valid array")
        return
    ref = kind[1]
    nt = any((getattr(v, "shape", (0, 0))[0] >= 2 and v.shape[1] >= 2) or (hasattr(v, "has_sym") and v.has_sym()) for v in ref.vars.values() if hasattr(v, "rows"))
    ctx.case(text, nt, tags=[f for f in ref.features if f.startswith(("scalar", "array", "expr:arrayidx", "int<-"))] + list(tags))
    ctx.sample({"positive": text}, limit=1)
    prog, exc = common.real_loads(text)
    if exc is not None:
        ctx.violation("raises:" + common.exc_key(exc), "loads() raised %s on valid declarations" % common.exc_text(exc), witness)
        return
    c = content.program_content(prog)
    d = content.diff_ref(ref, c, variables=True, seed="C05")
    if set(c["variables"]) != set(ref.vars):
        d.append(("variables", "variable-names", str(sorted(ref.vars)), str(sorted(c["variables"]))))
    if d:
        ctx.violation(common.diff_key(d), common.diff_text(d), witness)


def check_with_include(ctx, text, rng):
    """The same declarations in a script that also includes (and perhaps applies) another program, read with load():
    the variables of the including script are its own declarations, with their types, layout and shape."""
    import shutil
    import tempfile

    from . import c07

    lines = text.split("\n")
    try:
        at = next(i for i, ln in enumerate(lines) if ln.startswith("version")) + 1
    except StopIteration:
        return ctx.out_of_domain("no version line")
    while at < len(lines) and lines[at].startswith(("target", "type")):
        at += 1
    inc_name = "Inc_%d" % rng.randint(0, 99)
    lines.insert(at, 'include "lib/inc.xbb"')
    if rng.random() < 0.6:
        lines = [ln for ln in lines] + ["%s | [%d, %d]" % (inc_name, rng.randint(0, 3), rng.randint(4, 8))]
        while lines and lines[-2] == "":
            del lines[-2]
    main = "\n".join(ln for ln in lines if ln is not None)
    if not main.endswith("\n"):
        main += "\n"
    files = {"main.xbb": main,
             "lib/inc.xbb": "name %s\nversion 1.0\n\nfloat inner_%d = 0.5\nint array InnerArr =\n    1, 2\nSgate(inner_%d) | 3\nBSgate | [3, 5]\n" % (inc_name, rng.randint(0, 9), 0)}
    files["lib/inc.xbb"] = files["lib/inc.xbb"].replace("Sgate(inner_0)", "Sgate(0.25)")
    root = os.path.realpath(tempfile.mkdtemp(prefix="bbv-c05-"))
    try:
        try:
            c07.materialise(root, files)
        except UnicodeEncodeError:
            return ctx.out_of_domain("include lane writes ASCII files only")
        k = c07.ref_of(files, "main.xbb", root)
        if k[0] != "ok":
            return ctx.out_of_domain("include lane: %s" % (k[0] if k[0] != "ood" else k[1].split(" (")[0]))
        ref = k[1]
        ctx.case("include:" + main, True, tags=["with-include"])
        witness = {"files": files, "main": "main.xbb"}
        import blackbird

        try:
            prog = blackbird.load(os.path.join(root, "main.xbb"))
        except Exception as exc:
            return ctx.violation("include:raises:" + common.exc_key(exc), "load() of the script with an include raised %s" % common.exc_text(exc), witness)
        c = content.program_content(prog)
        d = content.diff_ref(ref, c, variables=True, seed="C05")
        if set(c["variables"]) != set(ref.vars):
            d.append(("variables", "variable-names", str(sorted(ref.vars)), str(sorted(c["variables"]))))
        if d:
            ctx.violation("include:" + common.diff_key(d), common.diff_text(d), witness)
    finally:
        shutil.rmtree(root, ignore_errors=True)


def run(ctx):
    g = common.grammar()
    if ctx.worker == 0:
        for e in common.corpus(ID):
            check_text(ctx, e["text"], tags=["corpus"] + e.get("tags", []))
    n = ctx.share(BUDGET[ctx.tier])
    for i in range(n):
        rng = ctx.rng(i)
        try:
            if rng.random() < 0.35:
                text, tag = build_negative(rng, g)
                check_text(ctx, text, tags=tag, expect_negative=True)
            else:
                text, G = build_positive(rng, g)
                check_text(ctx, text)
                if i % 8 == 3 and common.classify(text)[0] == "ok":
                    check_with_include(ctx, text, ctx.rng("inc", i))
        except RuntimeError:
            ctx.out_of_domain("generator gave up")


def replay(w):
    class C:
        res = None

        def out_of_domain(self, r):
            pass

        def case(self, *a, **k):
            pass

        def sample(self, *a, **k):
            pass

        def observe(self, *a, **k):
            pass

        def violation(self, key, summary, witness):
            self.res = "%s: %s" % (key, summary)

    c = C()
    check_text(c, w["text"])
    return c.res
