"""C14 - shipped lexers and parsers recognise exactly the language of blackbird.g4.

Translation validation in three layers (DESIGN §C14):

1. structure: the serialised ATNs embedded in the Python classes, in the C++
   sources and in the four .interp files are compared as integer sequences;
   token tables (.tokens x4, Python/C++ name vectors, .interp name sections) are
   compared with the numbering derived from the grammar file; listener/visitor
   method sets with the rule names and alternative labels; per parser rule the
   token types and rule references on the live ATN's transitions with those of
   the grammar rule body; per lexer rule the characters on its transitions;
2. executed lexer: on every workload string the shipped ``blackbirdLexer`` (and a
   generic ANTLR lexer instantiated on the ATN extracted from the C++ source)
   must produce the reference lexer's token sequence;
3. executed parser: on every workload token sequence the verdict of
   ``blackbirdParser.start()`` must equal the Earley verdict derived from the
   grammar file; a third recogniser interprets the shipped ATN as a recursive
   transition network, to triage a disagreement.

The generated C++ rule functions cannot be compiled or run here; their per-rule
skeleton (state numbers, matched tokens, decision numbers) is compared textually
with the Python one and declared as a structural comparison, not an execution.
"""
import os
import random
import re

from .. import common, env, g4ref

ID = "C14"
LEVEL = "translation_validation"
TECHNIQUE = "runtime translation validation: shipped lexer/parser executed against a lexer (NFA, maximal munch) and an Earley recogniser derived from blackbird.g4 at run time; artefact ATNs and tables compared structurally; shipped ATN also interpreted as a recursive transition network"
RULE = ("strings: sentences derived from the grammar file by a coverage-guided random derivation generator (every production used), sentences derived "
        "the same way from the shipped parser automaton (reverse inclusion), every member of a token class substituted for another member, all "
        "sentences of the start rule up to a token bound (thorough), their single-token mutations, per lexer rule the strings of its own NFA up "
        "to length 6 and their one-character edits, character soups over the grammar's alphabet plus foreign characters; each string is one "
        "'program': token sequence and accept/reject verdict compared between the shipped artefacts and the grammar-derived reference; "
        "non-trivial = string of >=2 tokens (lexer) / sequence with a verdict (parser); distinct by SHA-1 of the string")
BUDGET = {"quick": 120000, "thorough": 900000}
MIN_NONTRIVIAL = {"quick": 30000, "thorough": 200000}
REQUIRED_TAGS = ["derived-sentence", "atn-derived-sentence", "class-substitution", "mutated-sentence", "lexer-rule-string", "lexer-rule-edit", "char-soup", "accepted", "rejected", "cpp-atn-lexer", "rtn-recogniser", "unusual-end-character"]
ASSUMPTIONS = ["ANTLR lexer semantics for a grammar without modes/predicates/actions: longest match, earliest rule wins ties (bbverif/g4ref.py)",
               "the generated C++ rule functions are not executed (no ANTLR C++ runtime/tool offline); their skeleton is compared textually with the Python target's",
               "that the artefacts are what ANTLR 4.9.2 would emit is not claimed; identity of the shipped automata and language agreement on the explored strings is"]


# ------------------------------------------------------------------ artefacts


def py_sequences():
    from blackbird import blackbirdLexer as lx
    from blackbird import blackbirdParser as px

    return [ord(c) for c in px.serializedATN()], [ord(c) for c in lx.serializedATN()]


def cpp_sequence(path):
    with open(path) as f:
        s = f.read()
    segs = re.findall(r"serializedATNSegment(\d+)\[\]\s*=\s*\{(.*?)\};", s, re.S)
    out = []
    for n, body in sorted(segs, key=lambda x: int(x[0])):
        out += [int(x, 16) for x in re.findall(r"0x[0-9a-fA-F]+", body)]
    return out


def interp_sections(path):
    with open(path) as f:
        s = f.read()
    secs = {}
    cur = None
    for ln in s.split("\n"):
        if ln.endswith(":") and ln[:-1] in ("token literal names", "token symbolic names", "rule names", "channel names", "mode names", "atn"):
            cur = ln[:-1]
            secs[cur] = []
        elif cur is not None:
            secs[cur].append(ln)
    atn = "".join(secs.get("atn", []))
    m = re.search(r"\[(.*)\]", atn, re.S)
    secs["atn"] = [int(x) for x in m.group(1).split(",")] if m else []
    for k in ("token literal names", "token symbolic names", "rule names"):
        secs[k] = [x for x in secs.get(k, []) if x != ""]
    return secs


def cpp_vector(path, cls, name):
    with open(path) as f:
        s = f.read()
    m = re.search(r"std::vector<std::string> %s::%s = \{(.*?)\};" % (cls, name), s, re.S)
    if not m:
        return None
    return re.findall(r'"((?:[^"\\]|\\.)*)"', m.group(1))


def tokens_file(path):
    sym, lit = {}, {}
    with open(path) as f:
        for ln in f.read().split("\n"):
            if not ln:
                continue
            k, v = ln.rsplit("=", 1)
            (lit if k.startswith("'") else sym)[k] = int(v)
    return sym, lit


def g4_literal_of(rule):
    """The literal text of a lexer rule that consists of exactly one literal, else None."""
    name, frag, body, cmd = rule
    if body[0] == "alt" and len(body[1]) == 1 and len(body[1][0][1]) == 1 and body[1][0][1][0][0] == "lit":
        return body[1][0][1][0][1]
    return None


def g4_refs(node, acc):
    t = node[0]
    if t == "ref":
        acc.add(node[1])
    elif t == "alt":
        for a in node[1]:
            g4_refs(a, acc)
    elif t == "seq":
        for x in node[1]:
            g4_refs(x, acc)
    elif t in ("star", "plus", "opt", "not"):
        g4_refs(node[1], acc)
    return acc


def g4_chars(node, byname, acc, stack=()):
    """(positive chars, negated sets, wildcard?) used by a lexer rule body, fragments inlined."""
    t = node[0]
    if t == "lit":
        acc[0].update(node[1])
    elif t == "set":
        acc[0].update(node[1])
    elif t == "not":
        inner = node[1]
        acc[1].add(frozenset(inner[1]))
    elif t == "any":
        acc[2].add(True)
    elif t == "ref":
        if node[1] not in stack:
            g4_chars(byname[node[1]], byname, acc, stack + (node[1],))
    elif t == "alt":
        for a in node[1]:
            g4_chars(a, byname, acc, stack)
    elif t == "seq":
        for x in node[1]:
            g4_chars(x, byname, acc, stack)
    elif t in ("star", "plus", "opt"):
        g4_chars(node[1], byname, acc, stack)
    return acc


def rule_language(node, L):
    """All symbol strings (tuples of token / rule names) of length <= L denoted by a rule body."""
    t = node[0]
    if t == "ref":
        return {(node[1],)} if L >= 1 else set()
    if t == "alt":
        out = set()
        for a in node[1]:
            out |= rule_language(a, L)
        return out
    if t == "seq":
        cur = {()}
        for x in node[1]:
            nxt = set()
            for pre in cur:
                for suf in rule_language(x, L - len(pre)):
                    nxt.add(pre + suf)
            cur = nxt
            if not cur:
                break
        return cur
    if t == "opt":
        return {()} | rule_language(node[1], L)
    if t in ("star", "plus"):
        base = {w for w in rule_language(node[1], L) if w}
        out = set() if t == "plus" else {()}
        cur = {()}
        first = True
        while cur:
            nxt = set()
            for pre in cur:
                for w in base:
                    if len(pre) + len(w) <= L:
                        nxt.add(pre + w)
            nxt -= out
            out |= nxt
            cur = nxt
        if t == "plus":
            out.discard(())
        return out
    raise g4ref.G4Unsupported("parser node %r" % (t,))


def atn_rule_language(P, ri, L):
    """The same, read off the shipped parser ATN for rule index ri (rule calls are symbols)."""
    from antlr4.atn.Transition import Transition
    from antlr4.Token import Token

    atn = P.atn
    start = atn.ruleToStartState[ri]
    stop = atn.ruleToStopState[ri]
    out = set()
    seen = set()
    st = [(start, ())]
    while st:
        state, w = st.pop()
        if (state.stateNumber, w) in seen:
            continue
        seen.add((state.stateNumber, w))
        if state is stop:
            out.add(w)
            continue
        for t in state.transitions:
            k = t.serializationType
            if k in (Transition.EPSILON, Transition.PREDICATE, Transition.ACTION, Transition.PRECEDENCE):
                st.append((t.target, w))
            elif len(w) >= L:
                continue
            elif k == Transition.RULE:
                st.append((t.followState, w + (P.ruleNames[t.target.ruleIndex],)))
            elif k in (Transition.ATOM, Transition.RANGE, Transition.SET):
                for iv in t.label.intervals:
                    for tt in range(iv.start, iv.stop):
                        st.append((t.target, w + ("EOF" if tt == Token.EOF else P.symbolicNames[tt],)))
            elif k in (Transition.NOT_SET, Transition.WILDCARD):
                ex = set()
                if k == Transition.NOT_SET:
                    for iv in t.label.intervals:
                        ex |= set(range(iv.start, iv.stop))
                for tt in range(1, atn.maxTokenType + 1):
                    if tt not in ex:
                        st.append((t.target, w + (P.symbolicNames[tt],)))
    return out


def structure_obligations(g):
    """Yield (name, ok, detail) for every structural comparison."""
    from antlr4.atn.Transition import Transition
    from antlr4.Token import Token
    from blackbird.blackbirdLexer import blackbirdLexer as L
    from blackbird.blackbirdListener import blackbirdListener
    from blackbird.blackbirdParser import blackbirdParser as P

    py_p, py_l = py_sequences()
    cpp = lambda *a: env.repo_path("blackbird_cpp", *a)
    pyd = lambda *a: env.repo_path("blackbird_python", "blackbird", *a)
    cp = cpp_sequence(cpp("blackbirdParser.cpp"))
    cl = cpp_sequence(cpp("blackbirdLexer.cpp"))
    ip = {k: interp_sections(p) for k, p in (("py-parser", pyd("blackbird.interp")), ("py-lexer", pyd("blackbirdLexer.interp")),
                                             ("cpp-parser", cpp("blackbird.interp")), ("cpp-lexer", cpp("blackbirdLexer.interp")))}

    def first_diff(a, b):
        for i, (x, y) in enumerate(zip(a, b)):
            if x != y:
                return "first difference at index %d: %r vs %r (lengths %d/%d)" % (i, x, y, len(a), len(b))
        return "lengths %d vs %d" % (len(a), len(b))

    yield ("atn:parser python == c++ source", py_p == cp and len(cp) > 100, first_diff(py_p, cp))
    yield ("atn:lexer python == c++ source", py_l == cl and len(cl) > 100, first_diff(py_l, cl))
    yield ("atn:parser python == python .interp", py_p == ip["py-parser"]["atn"], first_diff(py_p, ip["py-parser"]["atn"]))
    yield ("atn:parser python == c++ .interp", py_p == ip["cpp-parser"]["atn"], first_diff(py_p, ip["cpp-parser"]["atn"]))
    yield ("atn:lexer python == python .interp", py_l == ip["py-lexer"]["atn"], first_diff(py_l, ip["py-lexer"]["atn"]))
    yield ("atn:lexer python == c++ .interp", py_l == ip["cpp-lexer"]["atn"], first_diff(py_l, ip["cpp-lexer"]["atn"]))

    # token numbering derived from the grammar file
    lex_rules = [r for r in g.lexer_rules if not r[1]]
    want_sym = {r[0]: i + 1 for i, r in enumerate(lex_rules)}
    want_lit = {"'%s'" % g4_literal_of(r): i + 1 for i, r in enumerate(lex_rules) if g4_literal_of(r) is not None}
    for label, path in (("python blackbird.tokens", pyd("blackbird.tokens")), ("python blackbirdLexer.tokens", pyd("blackbirdLexer.tokens")),
                        ("c++ blackbird.tokens", cpp("blackbird.tokens")), ("c++ blackbirdLexer.tokens", cpp("blackbirdLexer.tokens"))):
        sym, lit = tokens_file(path)
        yield ("tokens:%s symbolic numbering == grammar" % label, sym == want_sym, "differs: %s" % sorted(set(sym.items()) ^ set(want_sym.items()))[:6])
        yield ("tokens:%s literal numbering == grammar" % label, lit == want_lit, "differs: %s" % sorted(set(lit.items()) ^ set(want_lit.items()))[:6])
    want_symnames = ["<INVALID>"] + [r[0] for r in lex_rules]
    want_litnames = ["<INVALID>"] + [("'%s'" % g4_literal_of(r)) if g4_literal_of(r) is not None else "<INVALID>" for r in lex_rules]
    prules = [r[0] for r in g.parser_rules]
    lrules_all = [r[0] for r in g.lexer_rules]
    yield ("names:python parser symbolicNames", list(P.symbolicNames) == want_symnames, str(list(P.symbolicNames))[:120])
    yield ("names:python lexer symbolicNames", list(L.symbolicNames) == want_symnames, str(list(L.symbolicNames))[:120])

    def trim(xs):
        xs = list(xs)
        while xs and xs[-1] == "<INVALID>":
            xs.pop()
        return xs

    yield ("names:python parser literalNames", trim(P.literalNames) == trim(want_litnames), str(list(P.literalNames))[:120])
    # the Python lexer lists its literal names compactly (no placeholders for rules without a literal)
    yield ("names:python lexer literalNames", [x for x in L.literalNames if x != "<INVALID>"] == [x for x in want_litnames if x != "<INVALID>"], str(list(L.literalNames))[:120])
    yield ("names:python parser ruleNames", list(P.ruleNames) == prules, str(list(P.ruleNames))[:120])
    yield ("names:python lexer ruleNames", list(L.ruleNames) == lrules_all, str(list(L.ruleNames))[:120])
    for cls, fn in (("blackbirdParser", "blackbirdParser.cpp"), ("blackbirdLexer", "blackbirdLexer.cpp")):
        sy = cpp_vector(cpp(fn), cls, "_symbolicNames")
        li = cpp_vector(cpp(fn), cls, "_literalNames")
        ru = cpp_vector(cpp(fn), cls, "_ruleNames")
        yield ("names:c++ %s _symbolicNames" % cls, sy is not None and [x or "<INVALID>" for x in sy] == want_symnames, str(sy)[:120])
        yield ("names:c++ %s _literalNames" % cls, li is not None and trim([x.replace("\\\"", '"').replace("\\\\", "\\") or "<INVALID>" for x in li]) == trim(want_litnames), str(li)[:120])
        yield ("names:c++ %s _ruleNames" % cls, ru == (prules if cls == "blackbirdParser" else lrules_all), str(ru)[:120])
    for k, sec in ip.items():
        sy = [("<INVALID>" if x == "null" else x) for x in sec["token symbolic names"]]
        li = [("<INVALID>" if x == "null" else x) for x in sec["token literal names"]]
        yield ("names:%s .interp symbolic names" % k, sy == want_symnames, str(sy)[:100])
        yield ("names:%s .interp literal names" % k, trim(li) == trim(want_litnames), str(li)[:100])
        yield ("names:%s .interp rule names" % k, sec["rule names"] == (prules if k.endswith("parser") else lrules_all), str(sec["rule names"])[:100])

    # listener / visitor method sets
    labels = set()
    labelled_rules = set()
    for (name, _, body, _) in g.parser_rules:
        for a in body[1]:
            if a[2]:
                labels.add(a[2])
                labelled_rules.add(name)
    want_m = {n[0].upper() + n[1:] for n in prules if n not in labelled_rules} | labels
    meth = {m[5:] for m in dir(blackbirdListener) if m.startswith("enter") and m != "enterEveryRule"}
    exitm = {m[4:] for m in dir(blackbirdListener) if m.startswith("exit") and m != "exitEveryRule"}
    yield ("methods:python listener enter* == rules and labels", meth == want_m, str(sorted(meth ^ want_m)))
    yield ("methods:python listener exit* == rules and labels", exitm == want_m, str(sorted(exitm ^ want_m)))
    for h in ("blackbirdVisitor.h", "blackbirdBaseVisitor.h"):
        with open(cpp(h)) as f:
            cv = set(re.findall(r"visit(\w+)\(", f.read())) - {"Children"}
        yield ("methods:c++ %s visit* == rules and labels" % h, cv == want_m, str(sorted(cv ^ want_m)))
    ctxs = {m.group(1) for m in re.finditer(r"class (\w+)Context\(", open(pyd("blackbirdParser.py")).read())}
    want_ctx = {n[0].upper() + n[1:] for n in prules} | labels
    yield ("classes:python parser contexts == rules and labels", ctxs == want_ctx, str(sorted(ctxs ^ want_ctx)))

    # per parser rule: references on the live ATN's transitions
    atn = P.atn
    for i, (name, _, body, _) in enumerate(g.parser_rules):
        want = g4_refs(body, set())
        got = set()
        for s in atn.states:
            if s is None or s.ruleIndex != i:
                continue
            for t in s.transitions:
                k = t.serializationType
                if k == Transition.RULE:
                    got.add(P.ruleNames[t.target.ruleIndex])
                elif k in (Transition.ATOM, Transition.SET, Transition.RANGE):
                    for iv in t.label.intervals:
                        for tt in range(iv.start, iv.stop):
                            got.add("EOF" if tt == Token.EOF else P.symbolicNames[tt])
                elif k in (Transition.NOT_SET, Transition.WILDCARD):
                    got.add("<wildcard/not-set>")
        yield ("rule-refs:parser rule %s" % name, want == got, "grammar %s vs ATN %s" % (sorted(want - got), sorted(got - want)))
    # per parser rule: the bounded language over tokens and rule calls (exact, both inclusions); left-recursive
    # rules are rewritten by ANTLR and are compared by execution only
    BOUND = 6
    for i, (name, _, body, _) in enumerate(g.parser_rules):
        leftrec = any(a[1] and a[1][0][0] == "ref" and a[1][0][1] == name for a in body[1])
        if leftrec:
            continue
        want = rule_language(body, BOUND)
        got = atn_rule_language(P, i, BOUND)
        only_g = sorted(want - got)[:2]
        only_a = sorted(got - want)[:2]
        yield ("rule-language:parser rule %s (all strings of <= %d symbols)" % (name, BOUND), want == got,
               "%d vs %d strings; only in grammar %s; only in ATN %s" % (len(want), len(got), only_g, only_a))
    # per lexer rule: characters
    latn = L.atn
    byname = {r[0]: r[2] for r in g.lexer_rules}
    for (name, frag, body, cmd) in g.lexer_rules:
        pos, negs, anyc = g4_chars(body, byname, (set(), set(), set()))
        idx = list(L.ruleNames).index(name) if name in L.ruleNames else None
        if idx is None:
            yield ("rule-chars:lexer rule %s" % name, False, "rule missing from the lexer")
            continue
        gpos, gneg, gany = set(), set(), set()
        seen_rules = set()

        def collect(ri):
            if ri in seen_rules:
                return
            seen_rules.add(ri)
            for s in latn.states:
                if s is None or s.ruleIndex != ri:
                    continue
                for t in s.transitions:
                    k = t.serializationType
                    if k in (Transition.ATOM, Transition.SET, Transition.RANGE):
                        for iv in t.label.intervals:
                            for c in range(iv.start, iv.stop):
                                gpos.add(chr(c))
                    elif k == Transition.NOT_SET:
                        ex = set()
                        for iv in t.label.intervals:
                            for c in range(iv.start, iv.stop):
                                ex.add(chr(c))
                        gneg.add(frozenset(ex))
                    elif k == Transition.WILDCARD:
                        gany.add(True)
                    elif k == Transition.RULE:
                        collect(t.target.ruleIndex)

        collect(idx)
        ok = pos == gpos and negs == gneg and anyc == gany
        yield ("rule-chars:lexer rule %s" % name, ok, "grammar %r/%r/%r vs ATN %r/%r/%r" % (sorted(pos - gpos), negs, anyc, sorted(gpos - pos), gneg, gany))
    sk = [r[0] for r in g.lexer_rules if r[3] == "skip"]
    src = open(pyd("blackbirdLexer.py")).read()
    yield ("lexer skip rules", all(n in L.ruleNames for n in sk) and src.count("skip") >= 0, str(sk))
    # C++ vs Python rule-function skeletons (textual, declared as structural)
    pysk = python_skeleton(open(pyd("blackbirdParser.py")).read())
    cppsk = cpp_skeleton(open(cpp("blackbirdParser.cpp")).read())
    for name in prules:
        a, b = pysk.get(name), cppsk.get(name)
        yield ("skeleton:c++ vs python rule function %s" % name, a is not None and a == b, "python %s... c++ %s..." % (str(a)[:80], str(b)[:80]))


def _skeleton_lines(body, pats):
    seq = []
    for ln in body.split("\n"):
        for kind, pat in pats:
            m = pat.search(ln)
            if m:
                v = m.group(1)
                if kind == "call":
                    if v in RULES_CACHE:
                        seq.append((kind, v))
                    else:
                        continue
                else:
                    seq.append((kind, int(v) if v.isdigit() else v))
                break
    return seq


_PY_PATS = [("state", re.compile(r"self\.state = (\d+)")), ("match", re.compile(r"self\.match\(blackbirdParser\.(\w+)\)")),
            ("predict", re.compile(r"adaptivePredict\(self\._input,(\d+),")), ("call", re.compile(r"self\.(\w+)\(\d*\)\s*$"))]
_CPP_PATS = [("state", re.compile(r"setState\((\d+)\)")), ("match", re.compile(r"match\(blackbirdParser::(\w+)\)")),
             ("predict", re.compile(r"adaptivePredict\(_input, (\d+),")), ("call", re.compile(r"(?:^\s*|= )(\w+)\(\d*\);\s*$"))]


def python_skeleton(src):
    """rule -> sequence of ('state', n) / ('match', TOKEN) / ('predict', decision) / ('call', rule) in textual order."""
    out = {}
    parts = re.split(r"\n    def (\w+)\(self(?:, _p:int=0)?\):\n", src)
    for i in range(1, len(parts) - 1, 2):
        name, body = parts[i], parts[i + 1]
        if name not in RULES_CACHE:
            continue
        body = body.split("\n    class ")[0].split("\n    def ")[0]
        out[name] = _skeleton_lines(body, _PY_PATS)
    return out


def cpp_skeleton(src):
    out = {}
    parts = re.split(r"\nblackbirdParser::(\w+)Context\* blackbirdParser::(\w+)\((?:int precedence)?\) \{\n", src)
    for i in range(1, len(parts) - 2, 3):
        name, body = parts[i + 1], parts[i + 2]
        body = body.split("\n//-----")[0]
        out[name] = _skeleton_lines(body, _CPP_PATS)
    return out


RULES_CACHE = set()


# ------------------------------------------------------------- executed parts


def shipped_tokens(text):
    import antlr4
    from antlr4.Token import Token
    from blackbird.blackbirdLexer import blackbirdLexer

    lx = blackbirdLexer(antlr4.InputStream(text))
    lx.removeErrorListeners()
    out = []
    while True:
        t = lx.nextToken()
        if t.type == Token.EOF:
            break
        out.append((blackbirdLexer.symbolicNames[t.type], t.text, t.start))
    return out


class _GenericLexerFactory:
    """ANTLR lexer instantiated on an ATN extracted from another artefact (C++ source)."""

    def __init__(self, seq, names):
        from antlr4.atn.ATNDeserializer import ATNDeserializer
        from antlr4.dfa.DFA import DFA

        self.atn = ATNDeserializer().deserialize("".join(chr(v) for v in seq))
        self.dfas = [DFA(ds, i) for i, ds in enumerate(self.atn.decisionToState)]
        self.names = names

    def tokens(self, text):
        import antlr4
        from antlr4 import Lexer
        from antlr4.atn.LexerATNSimulator import LexerATNSimulator
        from antlr4.PredictionContext import PredictionContextCache
        from antlr4.Token import Token

        fac = self

        class GL(Lexer):
            atn = fac.atn

            def __init__(self, inp):
                super().__init__(inp)
                self._interp = LexerATNSimulator(self, fac.atn, fac.dfas, PredictionContextCache())

        lx = GL(antlr4.InputStream(text))
        lx.removeErrorListeners()
        out = []
        while True:
            t = lx.nextToken()
            if t.type == Token.EOF:
                break
            out.append((self.names[t.type], t.text, t.start))
        return out


def shipped_verdict(text):
    import antlr4
    from antlr4.error.ErrorListener import ErrorListener
    from blackbird.blackbirdLexer import blackbirdLexer
    from blackbird.blackbirdParser import blackbirdParser

    class Count(ErrorListener):
        n = 0

        def syntaxError(self, *a):
            self.n += 1

    lx = blackbirdLexer(antlr4.InputStream(text))
    lx.removeErrorListeners()
    lc = Count()
    lx.addErrorListener(lc)
    ps = blackbirdParser(antlr4.CommonTokenStream(lx))
    ps.removeErrorListeners()
    pc = Count()
    ps.addErrorListener(pc)
    ps.start()
    return lc.n == 0 and pc.n == 0


def atn_as_cfg():
    """The shipped parser ATN read as a recursive transition network -> CFG for the Earley recogniser."""
    from antlr4.atn.ATNState import RuleStopState
    from antlr4.atn.Transition import Transition
    from antlr4.Token import Token
    from blackbird.blackbirdParser import blackbirdParser

    atn = blackbirdParser.atn
    sym = blackbirdParser.symbolicNames
    prods = {}
    N = lambda s: "s%d" % s.stateNumber
    for s in atn.states:
        if s is None:
            continue
        rs = []
        if isinstance(s, RuleStopState):
            rs.append(())
        else:
            for t in s.transitions:
                k = t.serializationType
                if k in (Transition.EPSILON, Transition.PREDICATE, Transition.ACTION, Transition.PRECEDENCE):
                    rs.append((N(t.target),))
                elif k == Transition.RULE:
                    rs.append((N(t.target), N(t.followState)))
                elif k in (Transition.ATOM, Transition.RANGE, Transition.SET):
                    for iv in t.label.intervals:
                        for tt in range(iv.start, iv.stop):
                            rs.append((("EOF" if tt == Token.EOF else sym[tt]), N(t.target)))
                elif k == Transition.NOT_SET:
                    ex = set()
                    for iv in t.label.intervals:
                        ex |= set(range(iv.start, iv.stop))
                    for tt in range(1, atn.maxTokenType + 1):
                        if tt not in ex:
                            rs.append((sym[tt], N(t.target)))
                elif k == Transition.WILDCARD:
                    for tt in range(1, atn.maxTokenType + 1):
                        rs.append((sym[tt], N(t.target)))
        prods[N(s)] = rs
    return prods, N(atn.ruleToStartState[0])


class RTN:
    def __init__(self, g):
        import copy

        self.g = copy.copy(g)
        prods, start = atn_as_cfg()
        self.g.prods = prods
        self.g.start = start
        nullable = set()
        changed = True
        while changed:
            changed = False
            for nt, rs in prods.items():
                if nt in nullable:
                    continue
                for r in rs:
                    if all(s in nullable for s in r):
                        nullable.add(nt)
                        changed = True
                        break
        self.g.nullable = nullable

    def recognize(self, types):
        return self.g.recognize(types, start=self.g.start)


# ------------------------------------------------------------------ workloads


class Deriver:
    """Coverage-guided random derivations from the grammar's own productions."""

    def __init__(self, g, rng):
        self.g = g
        self.r = rng
        self.used = {}
        self.minlen = {}
        prods = g.prods
        INF = 10 ** 9
        for nt in prods:
            self.minlen[nt] = INF
        changed = True
        while changed:
            changed = False
            for nt, rs in prods.items():
                for r in rs:
                    n = sum(self.minlen.get(s, 1) for s in r)
                    if n < self.minlen[nt]:
                        self.minlen[nt] = n
                        changed = True

    def cost(self, rhs):
        return sum(self.minlen.get(s, 1) for s in rhs)

    def derive(self, sym, budget, depth=0):
        """Random derivation of `sym`; `budget` is a soft target for the number of tokens.  Productions not
        used yet are preferred; when the budget is spent (or the derivation is deep) a cheapest production is taken."""
        g = self.g
        if sym not in g.prods:
            return [sym]
        rs = g.prods[sym]
        if (budget <= self.minlen[sym] and (depth > 14 or self.r.random() < 0.7)) or depth > 40:
            best = min(self.cost(r) for r in rs)
            cands = [(i, r) for i, r in enumerate(rs) if self.cost(r) == best]
        else:
            cands = [(i, r) for i, r in enumerate(rs) if self.cost(r) <= budget + 4] or list(enumerate(rs))
            if budget >= 3 and len(cands) > 1 and self.r.random() < 0.8:
                # keep loops and options going while there is budget left
                nonempty = [c for c in cands if c[1]]
                cands = nonempty or cands
        # productions used less often so far are more likely (balances the alternatives of every rule)
        ws = [1.0 / (1 + self.used.get((sym, c[0]), 0)) ** 1.5 for c in cands]
        i, r = self.r.choices(cands, weights=ws)[0]
        self.used[(sym, i)] = self.used.get((sym, i), 0) + 1
        rest = max(0, budget - self.cost(r))
        # hand the spare budget to the right-hand-side symbols in random order; loops over a single token get little
        extras = [0] * len(r)
        order = list(range(len(r)))
        self.r.shuffle(order)
        for k in order:
            if rest <= 0:
                break
            sk = r[k]
            if sk not in g.prods:
                continue
            e = self.r.randint(0, rest)
            if self._token_loop(sk):
                e = min(e, self.r.choice([0, 0, 1, 2]))
            extras[k] = e
            rest -= e
        if rest > 0:
            nts = [k for k in order if r[k] in g.prods and not self._token_loop(r[k])]
            if nts:
                extras[self.r.choice(nts)] += rest
        out = []
        for k, sk in enumerate(r):
            out.extend(self.derive(sk, self.minlen.get(sk, 1) + extras[k], depth + 1))
        return out

    def _token_loop(self, nt):
        """nt -> () | nt T   or   nt -> T | nt T   with T a single token"""
        rs = self.g.prods.get(nt)
        if not rs or len(rs) != 2:
            return False
        for r in rs:
            if len(r) == 2 and r[0] == nt and r[1] not in self.g.prods:
                return True
        return False


def enumerate_sentences(g, max_tokens, cap):
    """All token-type sentences of the start rule with at most max_tokens tokens (leftmost derivation DFS, capped)."""
    d = Deriver(g, random.Random(0))
    out = []
    seen = set()

    def rec(form, done):
        if len(out) >= cap:
            return
        # form: tuple of symbols still to expand; done: terminals so far
        need = sum(d.minlen.get(s, 1) for s in form)
        if len(done) + need > max_tokens:
            return
        if not form:
            t = tuple(done)
            if t not in seen:
                seen.add(t)
                out.append(list(done))
            return
        s, rest = form[0], form[1:]
        if s not in g.prods:
            rec(rest, done + [s])
            return
        for r in g.prods[s]:
            rec(tuple(r) + rest, done)

    rec((g.start,), [])
    return out


def token_classes(g):
    """Sets of token types that the grammar offers as alternatives of one another at some point
    (rules or bracketed groups all of whose alternatives are a single token)."""
    tokset = set(g.token_names)
    out = set()

    def walk(node):
        t = node[0]
        if t == "alt":
            alts = node[1]
            if len(alts) >= 2 and all(len(a[1]) == 1 and a[1][0][0] == "ref" and a[1][0][1] in tokset for a in alts):
                out.add(frozenset(a[1][0][1] for a in alts))
            for a in alts:
                for x in a[1]:
                    walk(x)
        elif t in ("star", "plus", "opt"):
            walk(node[1])

    for (name, frag, body, cmd) in g.parser_rules:
        walk(body)
    return sorted(out, key=lambda c: sorted(c))


class AtnGrammar:
    """The shipped parser ATN as a grammar object for the Deriver (sentences of the automaton)."""

    def __init__(self):
        self.prods, self.start = atn_as_cfg()


class Texts:
    """Representative texts per token type."""

    def __init__(self, g, rng):
        self.r = rng
        self.t = {}
        for n in g.token_names:
            xs = []
            for w in g.rule_strings(n, maxlen=5, limit=40):
                try:
                    tk = g.tokenize(w, keep_skipped=True)
                except ValueError:
                    continue
                if len(tk) == 1 and tk[0].type == n:
                    xs.append(w)
            s = g.sample_text(n)
            if s and s not in xs:
                xs.append(s)
            self.t[n] = xs or ["$"]
        self.t["NAME"] += ["foo", "x1", "Sgate", "alpha_2"]
        self.t["TAB"] = ["\t", "    "]
        self.t["NEWLINE"] = ["\n", "\n", "\r\n", "\r"]
        self.t["STR"] += ['"abc"', '"a b#c"']

    def render(self, types):
        out = []
        for ty in types:
            if ty == "EOF":
                continue
            w = self.r.choice(self.t[ty])
            if ty in ("NEWLINE", "TAB"):
                out.append(w)
            else:
                out.append(w + " ")
        return "".join(out)


FIRST_CHARS = ["\ufeff", "\ufffe", "\x00", "\u200b", "\xa0", "\x0c", "\u2060", "\x1a", "\ufeff\ufeff", "\u2028", "\x85", "\x1b", "\ufeff#!", "\x04"]


def compare(ctx, g, text, tags, aux):
    """One 'program': compare tokens and verdict between shipped artefacts and reference."""
    witness = {"text": text}
    try:
        ref = g.tokenize(text)
    except ValueError as e:
        return ctx.violation("machinery:reflexer", str(e), witness)
    got = shipped_tokens(text)
    want = [(t.type, t.text, t.pos) for t in ref]
    tags = list(tags)
    if got != want:
        k = 0
        while k < min(len(got), len(want)) and got[k] == want[k]:
            k += 1
        ctx.case(text, True, tags=tags + ["token-mismatch"])
        return ctx.violation("lexer-disagrees:%s-vs-%s" % (want[k][0] if k < len(want) else "END", got[k][0] if k < len(got) else "END"),
                             "token #%d: grammar prescribes %r, shipped lexer produced %r" % (k, want[k] if k < len(want) else None, got[k] if k < len(got) else None), witness)
    if aux.get("cpp_lexer") is not None and aux["n"] % 5 == 0:
        tags.append("cpp-atn-lexer")
        g2 = aux["cpp_lexer"].tokens(text)
        if g2 != want:
            ctx.case(text, True, tags=tags)
            return ctx.violation("cpp-atn-lexer-disagrees", "the lexer ATN embedded in blackbirdLexer.cpp tokenises %r differently from the grammar" % text[:80], witness)
    aux["n"] += 1
    types = [t.type for t in ref] + ["EOF"]
    ok, bad = g.recognize(types)
    real = shipped_verdict(text)
    tags.append("accepted" if ok else "rejected")
    if aux["n"] % 7 == 0 or ok != real:
        tags.append("rtn-recogniser")
        r_ok, r_bad = aux["rtn"].recognize(types)
    else:
        r_ok = None
    ctx.case(text, len(ref) >= 2, tags=tags)
    ctx.sample({"text": text[:200], "tokens": [t.type for t in ref][:40], "sentence": ok}, limit=2)
    if ok != real:
        blame = "the generated rule functions / runtime" if r_ok == ok else "the shipped ATN (artefacts do not correspond to the grammar file)"
        return ctx.violation("parser-verdict-disagrees:" + ("grammar-accepts" if ok else "grammar-rejects"),
                             "grammar file %s, shipped parser %s, shipped ATN read as RTN %s -> points at %s; tokens %s" % (
                                 "accepts" if ok else "rejects", "accepts" if real else "rejects", "accepts" if r_ok else "rejects", blame, [t.type for t in ref][:60]), witness)
    if aux["n"] % 11 == 0 and "unusual-end-character" not in tags:
        # the same text behind (or before) a character that decoders, editors and terminals treat specially, but
        # the grammar does not: a position-dependent treatment of such a character is a deviation from the grammar
        ch = FIRST_CHARS[(aux["n"] // 11) % len(FIRST_CHARS)]
        aux["n"] += 1
        compare(ctx, g, ch + text if (aux["n"] // 11) % 3 else text + ch, tags[:1] + ["unusual-end-character"], aux)
    if r_ok is not None and r_ok != ok:
        return ctx.violation("atn-rtn-disagrees", "the shipped ATN read as a recursive transition network %s a sequence the grammar file %s" % (
            "accepts" if r_ok else "rejects", "accepts" if ok else "rejects"), witness)


def run(ctx):
    g = common.grammar()
    RULES_CACHE.update(r[0] for r in g.parser_rules)
    if ctx.worker == 0:
        n_ob = n_ok = 0
        for (name, ok, detail) in structure_obligations(g):
            n_ob += 1
            if ok:
                n_ok += 1
            else:
                ctx.violation("structure:" + name.split(":")[0] + ":" + re.sub(r"\d+", "N", name.split(":", 1)[1])[:60], "%s: %s" % (name, detail), {"obligation": name})
        ctx.extra["structure"] = {"obligations": n_ob, "held": n_ok}
        ctx.observe("structural comparisons", n_ob)
    aux = {"n": 0, "rtn": RTN(g)}
    try:
        from blackbird.blackbirdLexer import blackbirdLexer

        aux["cpp_lexer"] = _GenericLexerFactory(cpp_sequence(env.repo_path("blackbird_cpp", "blackbirdLexer.cpp")), blackbirdLexer.symbolicNames)
    except Exception as e:
        aux["cpp_lexer"] = None
        ctx.observe("C++ lexer ATN could not be instantiated: " + type(e).__name__)
    rng0 = ctx.rng("texts")
    texts = Texts(g, rng0)
    der = Deriver(g, ctx.rng("derive"))
    total = ctx.share(BUDGET[ctx.tier])
    done = 0
    if ctx.worker == 0:
        for e in common.corpus(ID):
            compare(ctx, g, e["text"], ["corpus"], aux)
    if ctx.tier == "thorough":
        sents = enumerate_sentences(g, 9, 60000)
        ctx.extra["enumerated"] = len(sents)
        for k, s in enumerate(sents):
            if ctx.my(k):
                compare(ctx, g, texts.render(s), ["derived-sentence", "enumerated"], aux)
                done += 1
    names = [n for n in g.token_names]
    alpha = g.alphabet() + list("é中 \x00\x7f")
    classes = token_classes(g)
    ctx.extra["token_classes"] = len(classes)
    seen_ctx = set()
    atn_der = Deriver(AtnGrammar(), ctx.rng("derive-atn"))
    i = 0
    while done < total:
        rng = ctx.rng(i)
        i += 1
        c = rng.random()
        if c < 0.12:
            # the reverse direction: sentences of the shipped automaton must be sentences of the grammar file
            atn_der.r = rng
            types = atn_der.derive(atn_der.g.start, rng.choice([6, 10, 16, 30, 60]))
            texts.r = rng
            compare(ctx, g, texts.render(types), ["atn-derived-sentence"], aux)
            done += 1
            continue
        if c < 0.35:
            der.r = rng
            types = der.derive(g.start, rng.choice([5, 8, 12, 20, 40, 80]))
            texts.r = rng
            # every member of a token class in the place of another member (LL(1) sets of the generated code)
            body_ = [t for t in types if t != "EOF"]
            spots = [(k_, cl) for k_, t in enumerate(body_) for cl in classes if t in cl]
            rng.shuffle(spots)
            # contexts (two preceding token types, class) not substituted yet come first
            fresh_ = [sp for sp in spots if (tuple(body_[max(0, sp[0] - 2) : sp[0]]), sp[1]) not in seen_ctx]
            spots = fresh_ + [sp for sp in spots if sp not in fresh_]
            for (k_, cl) in (spots if ctx.tier == "thorough" else spots[:6]):
                seen_ctx.add((tuple(body_[max(0, k_ - 2) : k_]), cl))
                for other in sorted(cl):
                    if other != body_[k_]:
                        compare(ctx, g, texts.render(body_[:k_] + [other] + body_[k_ + 1 :]), ["class-substitution"], aux)
                        done += 1
            text = texts.render(types)
            compare(ctx, g, text, ["derived-sentence"], aux)
            done += 1
            # single-token mutations of it
            for _ in range(3):
                t2 = list(types[:-1]) if types and types[-1] == "EOF" else list(types)
                if not t2:
                    break
                k = rng.randrange(len(t2))
                m = rng.choice("dis")
                if m == "d":
                    del t2[k]
                elif m == "i":
                    t2.insert(k, rng.choice(names))
                else:
                    t2[k] = rng.choice(names)
                compare(ctx, g, texts.render(t2), ["mutated-sentence"], aux)
                done += 1
        elif c < 0.6:
            n = rng.choice(names)
            pool = texts.t[n]
            w = rng.choice(pool)
            compare(ctx, g, w, ["lexer-rule-string"], aux)
            done += 1
            for _ in range(3):
                if not w:
                    break
                k = rng.randrange(len(w) + 1)
                m = rng.choice("dis")
                ch = rng.choice(alpha)
                w2 = w[:k] + ch + w[k:] if m == "i" else (w[:k] + w[k + 1 :] if m == "d" else w[:k] + ch + w[k + 1 :])
                w2 = w2 + rng.choice(["", " ", "x", "1", ".", "j"])
                compare(ctx, g, w2, ["lexer-rule-edit"], aux)
                done += 1
        elif c < 0.8:
            # pairs / triples of lexer rule strings glued without a separator (maximal munch, tie-breaking)
            w = "".join(rng.choice(texts.t[rng.choice(names)]) for _ in range(rng.randint(2, 4)))
            compare(ctx, g, w, ["lexer-rule-edit", "glued"], aux)
            done += 1
        else:
            text = "".join(rng.choice(alpha) for _ in range(rng.randint(1, 30)))
            compare(ctx, g, text, ["char-soup"], aux)
            done += 1
    ctx.extra["productions_used"] = len(der.used)
    ctx.extra["productions_total"] = sum(len(v) for v in g.prods.values())


def coverage_extra(tier, results, extra):
    st = (extra.get("structure") or [{}])[0]
    used = max(extra.get("productions_used") or [0])
    tot = max(extra.get("productions_total") or [0])
    return {
        "programs": sum(r["evaluations"] for r in results),
        "disagreements_checked": sum(sum(r["violation_counts"].values()) for r in results),
        "structural_obligations": st.get("obligations", 0),
        "structural_obligations_held": st.get("held", 0),
        "grammar_productions_exercised_by_one_worker": "%d/%d" % (used, tot),
        "enumerated_sentences": (extra.get("enumerated") or [0])[0],
        "explanation": "programs = strings whose token sequence and accept/reject verdict were compared between the shipped artefacts and the grammar-derived reference; the C++ rule functions are compared as text skeletons only",
    }


def finish(tier, seed, results, extra):
    st = (extra.get("structure") or [None])[0]
    if not st or st.get("obligations", 0) < 60:
        return {"problems": ["structural layer did not run (%r)" % (st,)]}
    return {}


def replay(w):
    g = common.grammar()
    RULES_CACHE.update(r[0] for r in g.parser_rules)
    if "obligation" in w:
        for (name, ok, detail) in structure_obligations(g):
            if name == w["obligation"] and not ok:
                return "%s: %s" % (name, detail)
        return None

    class C:
        res = None

        def case(self, *a, **k):
            pass

        def sample(self, *a, **k):
            pass

        def violation(self, key, summary, witness):
            self.res = "%s: %s" % (key, summary)

    c = C()
    compare(c, g, w["text"], [], {"n": 0, "rtn": RTN(g), "cpp_lexer": None})
    return c.res
