"""C02 - loading a script yields exactly the program the script denotes.

Reference-model monitor: the independent interpreter (refsem) evaluates the
*text*; the content of ``loads(text)`` is compared with it.
"""
from .. import common, content, gen

ID = "C02"
LEVEL = "exploration"
TECHNIQUE = "runtime reference-model monitor: independent interpreter of the script text vs content of loads(), on generated scripts"
RULE = ("random valid scripts (metadata with/without target/type/options, typed scalars, arrays, statements with every "
        "bracket style, positional/keyword/list arguments, Measure* operations, for-loops) rendered to text; the reference "
        "interpreter decides validity and domain from the text alone; non-trivial = at least 5 executed statements showing at "
        "least 3 statement/argument features; distinct by SHA-1 of the text"
        '; a tenth of the scripts use a template parameter named like a variable declared later; a quarter of the loaded programs are edited in place and the same text is loaded again')
BUDGET = {"quick": 4000, "thorough": 60000}
MIN_NONTRIVIAL = {"quick": 300, "thorough": 3000}
REQUIRED_FUNCTIONS = ["listener.py:BlackbirdListener.exitStatement", "auxiliary.py:_get_arguments", "auxiliary.py:_expression",
                      "listener.py:BlackbirdListener.exitTarget", "listener.py:BlackbirdListener.exitForloop"]
FUNCTIONS = REQUIRED_FUNCTIONS + ["listener.py:BlackbirdListener.exitDeclaretype", "listener.py:BlackbirdListener.exitExpressionvar",
                                  "listener.py:BlackbirdListener.exitArrayvar", "auxiliary.py:_literal", "auxiliary.py:_number"]
ASSUMPTIONS = ["the reference interpreter (bbverif/refsem.py, rules in DESIGN Appendix A) is the meaning of a script",
               "scripts the reference finds out of domain (non-finite values, int64 overflow, cancelling symbols, ...) are excluded and counted"]

STMT_FEATURES = ("no-arglist", "empty-arglist", "args", "kwargs", "kwarg-list", "op:measure", "multi-mode", "loop", "array-arg",
                 "regref-arg", "param-arg", "target-options", "type-options", "expr:arrayidx")


def options_for(rng):
    return dict(
        params=rng.choice([0.0, 0.0, 0.08]),
        regrefs=rng.choice([0.0, 0.0, 0.1]),
        loops=rng.choice([0.0, 0.3, 0.6]),
        arrays=rng.choice([0.3, 0.6]),
        kwlists=rng.choice([0.2, 0.5]),
        empty_list=rng.choice([0.0, 0.0, 0.0, 0.15]),
        layout=rng.choice([0.0, 0.3]),
        tdm=rng.random() < 0.12,
    )


REQUIRED_TAGS = ["redeclared-array", "redeclared-scalar", "tdm-plike-array-name", "tdm-parray", "type-options", "target-options", "kwarg-list", "loop", "op:measure", "no-arglist", "empty-arglist", "param-named-like-variable"]


def check_text(ctx, text, tags=()):
    """Returns True when the case counted (valid and in domain)."""
    kind = common.classify(text)
    if kind[0] == "ood":
        ctx.out_of_domain(kind[1].split(" (")[0])
        return False
    if kind[0] == "nosentence":
        ctx.out_of_domain("generator produced a non-sentence")
        return False
    if kind[0] == "ill":
        ctx.out_of_domain("generator produced an ill-formed script: " + kind[1].kind)
        return False
    if kind[0] == "refbug":
        ctx.violation("machinery:refbug", kind[1], {"text": text})
        return False
    ref = kind[1]
    feats = ref.features
    nontrivial = ref.statements_executed >= 5 and len([f for f in STMT_FEATURES if f in feats]) >= 3
    ctx.case(text, nontrivial, tags=[f for f in feats if not f.startswith(("lit:", "func:"))] + list(tags))
    ctx.sample({"script": text}, limit=1)
    prog, exc = common.real_loads(text)
    if exc is not None:
        ctx.violation("raises:" + common.exc_key(exc), "loads() raised %s on a valid script" % common.exc_text(exc), {"text": text})
        return True
    c = content.program_content(prog)
    diffs = content.diff_ref(ref, c, variables=False, seed="C02")
    if diffs:
        only_empty = all(d[1] == "empty-list-kwarg-dropped" for d in diffs)
        key = "empty-list-kwarg-dropped" if only_empty else common.diff_key(diffs)
        ctx.violation(key, common.diff_text(diffs), {"text": text})
        return True
    if int(__import__("hashlib").sha1(text.encode("utf-8", "surrogatepass")).hexdigest()[:2], 16) < 64:
        # the program just returned is edited in place, then the same text is loaded again: the second program must
        # again be the one the script denotes (nothing of the first result may be handed out a second time)
        try:
            prog.operations.append({"op": "Edited", "modes": [99]})
            if prog.operations[0].get("modes"):
                prog.operations[0]["modes"][0] = 98
            prog.operations[0]["op"] = "Edited0"
            prog.target.setdefault("options", {})["edited"] = 1 if isinstance(prog.target.get("options"), dict) else None
            prog.modes.add(97)
        except Exception:
            pass
        ctx.observe("second load of the same text after the first result was edited in place")
        prog2, exc = common.real_loads(text)
        if exc is not None:
            ctx.violation("second-load:raises:" + common.exc_key(exc), "the second loads() of the same text raised %s" % common.exc_text(exc), {"text": text})
            return True
        if prog2 is prog:
            ctx.violation("second-load:same-object", "the second loads() of the same text returned the object of the first", {"text": text})
            return True
        diffs = content.diff_ref(ref, content.program_content(prog2), variables=False, seed="C02")
        if diffs:
            ctx.violation("second-load:" + common.diff_key(diffs), "second load of the same text, after the first result was edited: " + common.diff_text(diffs), {"text": text})
    return True


def run(ctx):
    g = common.grammar()
    if ctx.worker == 0:
        for i, e in enumerate(common.corpus(ID)):
            check_text(ctx, e["text"], tags=["corpus"])
    n = ctx.share(BUDGET[ctx.tier])
    for i in range(n):
        rng = ctx.rng(i)
        try:
            text, info = gen.script(rng, g, n_stmts=(3, 14), **options_for(rng))
        except RuntimeError:
            ctx.out_of_domain("generator gave up")
            continue
        extra = []
        names = list(info["gen"].scalars) + list(info["gen"].arrays)
        lines = text.split("\n")
        if names and "" in lines and rng.random() < 0.1:
            # a template parameter named like a variable that is declared (and used) later in the script
            nm = rng.choice(names)
            lines.insert(lines.index("") + 1, "Pre({%s}, k=[1, {%s}]) | 9" % (nm, nm))
            text = "\n".join(lines)
            extra = ["param-named-like-variable"]
        check_text(ctx, text, tags=sorted(t for t in info["tags"] if t.startswith(("redeclared", "tdm-plike"))) + extra)


def replay(w):
    class C:
        res = None

        def out_of_domain(self, r):
            pass

        def case(self, *a, **k):
            pass

        def sample(self, *a, **k):
            pass

        def violation(self, key, summary, witness):
            self.res = "%s: %s" % (key, summary)

    c = C()
    check_text(c, w["text"])
    return c.res
