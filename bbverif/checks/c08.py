"""C08 - measured-register arguments become transforms computing the written formula.

Reference-model monitor: the reference expression tree is evaluated at an
assignment {register -> value}; the real ``func`` is fed the values in the order
the transform lists its registers.  Every case runs in several worker processes
with different PYTHONHASHSEED values so that different iteration orders of the
symbol set occur; the orders actually observed are merged and reported.
"""
import math
import hashlib
import random

from .. import common, content, gen, refsem
from ..refnum import OOD, V

ID = "C08"
LEVEL = "exploration"
TECHNIQUE = "runtime reference-model monitor of register transforms (func fed in listed order vs reference tree), swept over PYTHONHASHSEED values"
RULE = ("polynomial/rational expressions over 1-5 distinct registers q0..q120 with int/float coefficients, constants and declared variables, in "
        "positional and keyword position; generic real measurement values; each case executed under 4 hash seeds; non-trivial = at least 2 "
        "distinct registers and pairing-sensitive (swapping two measurement values changes the reference value); distinct by SHA-1 of the text"
        '; fractional powers of even powers; every transform also evaluated at complex measurement values'
        '; negative integer exponents; every transform also evaluated at integer measurement values of four magnitudes against the equal floats')
BUDGET = {"quick": 2400, "thorough": 30000}   # cases per seed group; every case runs under SEEDS hash seeds
MIN_NONTRIVIAL = {"quick": 300, "thorough": 3000}
REQUIRED_FUNCTIONS = ["listener.py:RegRefTransform.__init__", "listener.py:BlackbirdListener.exitStatement"]
FUNCTIONS = REQUIRED_FUNCTIONS
REQUIRED_TAGS = ["regref-multi", "slot:positional", "slot:keyword", "plain-value-next-to-regref", "loop", "register>=1000"]
ASSUMPTIONS = ["a register that cancels identically is detected numerically by the reference and excluded (quantifier)",
               "measurement values are generic reals in +-[0.3, 3]; points where the reference cannot be evaluated (poles) are skipped"]
SEEDS = 4


def worker_env(w, n, tier):
    return {"PYTHONHASHSEED": str((w % SEEDS) * 7919 + 1)}


def build(rng, g):
    G = gen.Gen(rng, g, regrefs=0.0, params=0.0, layout=0.2, funcs=False, complex=False, hostile_names=0.3, kwlists=0.0)
    lines, _ = G.metadata(target=False, ptype=False)
    for _ in range(rng.choice([0, 1, 2])):
        t = G.decl_scalar(vartype=rng.choice(["int", "float"]), depth=1)
        if t:
            lines.append(t)
    exprs = []
    for _ in range(rng.choice([1, 2, 3])):
        pos, kws = [], []
        for _ in range(rng.choice([1, 1, 2, 3])):
            if rng.random() < 0.75:
                e = G.reg_expr(rng.choice([1, 2, 2, 3]))
                exprs.append(e)
                pos.append(e)
            else:
                pos.append(G.expr(1, "if"))
        for _ in range(rng.choice([0, 1, 1, 2])):
            k = G.ident(fresh=False)
            if rng.random() < 0.75:
                e = G.reg_expr(rng.choice([1, 2, 3]))
                exprs.append(e)
                kws.append("%s=%s" % (k, e))
            else:
                kws.append("%s=%s" % (k, G.expr(1, "if")))
        lines.append("%s(%s) | %s" % (G.opname(), ", ".join(pos + kws), G.modes_text(G.pick_modes(2))))
    c = rng.random()
    if c < 0.2:
        # the same argument text evaluated again with another value of a declared variable: inside a loop ...
        v = G.ident()
        co = G.ident()
        lines.append("float %s = %s" % (co, rng.choice(["0.5", "1.5", "2"])))
        e = rng.choice(["%s*q0 + %s*q1", "q2 - %s*%s*q3", "(%s + %s)*q5 - q7", "q1/%s + %s*q0"]) % (co, v)
        lines.append("for %s %s in %s" % (rng.choice(["int", "float"]), v, rng.choice(["2:5", "[1, 3, 4]", "1:6:2"])))
        lines.append("    Zgate(%s) | %s" % (e, rng.choice(["0", "[1, 2]"])))
        if rng.random() < 0.5:
            lines.append("    Xgate(1, k=%s) | 3" % e)
        exprs.append(e)
    elif c < 0.35:
        # ... or with the variable declared again between two identical statements
        co = G.ident()
        e = rng.choice(["%s*q0 - q1", "q2/%s + q3", "%s*%s*q4 + 1"]).replace("%s", co)
        lines.append("float %s = %s" % (co, rng.choice(["2", "0.75", "3"])))
        lines.append("Zgate(%s) | 0" % e)
        lines.append("float %s = %s" % (co, rng.choice(["-0.25", "1.25", "7"])))
        lines.append("Zgate(%s) | 0" % e)
        exprs.append(e)
    return "\n".join(lines) + "\n", exprs


def pairing_sensitive(symv):
    regs = sorted(symv.regs())
    if len(regs) < 2:
        return False
    rr = random.Random("pair/" + refsem.show_tree(symv.tree))
    for _ in range(4):
        pt = {("reg", r): V("f", rr.choice([-1, 1]) * rr.uniform(0.3, 3.0)) for r in regs}
        a, b = rr.sample(regs, 2)
        pt2 = dict(pt)
        pt2[("reg", a)], pt2[("reg", b)] = pt[("reg", b)], pt[("reg", a)]
        try:
            x, y = symv.evaluate(pt), symv.evaluate(pt2)
        except OOD:
            continue
        if abs(complex(x.v) - complex(y.v)) > 1e-6 * max(1.0, abs(complex(x.v))):
            return True
    return False


def check_text(ctx, text, tags=()):
    kind = common.classify(text)
    witness = {"text": text}
    if kind[0] == "ood":
        return ctx.out_of_domain(kind[1].split(" (")[0])
    if kind[0] in ("nosentence", "ill"):
        return ctx.out_of_domain("generator produced an invalid script (%s)" % kind[0])
    if kind[0] == "refbug":
        return ctx.violation("machinery:refbug", kind[1], witness)
    ref = kind[1]
    syms = []
    feats = set(tags)
    for o in ref.ops:
        for a in (o.args or []):
            if isinstance(a, refsem.Sym):
                syms.append(a)
                feats.add("slot:positional")
        for _, a in (o.kwargs or []):
            if isinstance(a, refsem.Sym):
                syms.append(a)
                feats.add("slot:keyword")
        vals = list(o.args or []) + [a for _, a in (o.kwargs or [])]
        if any(isinstance(a, refsem.Sym) for a in vals) and any(isinstance(a, V) for a in vals):
            feats.add("plain-value-next-to-regref")
    if not syms:
        return ctx.out_of_domain("no register expression left")
    nt = any(pairing_sensitive(s) for s in syms)
    if any(len(s.regs()) > 1 for s in syms):
        feats.add("regref-multi")
    if any(n >= 1000 for s in syms for n in s.regs()):
        feats.add("register>=1000")
    if "loop" in ref.features:
        feats.add("loop")
    if nt:
        feats.add("pairing-sensitive")
    ctx.case(text, nt, tags=sorted(feats))
    ctx.sample({"script": text}, limit=1)
    prog, exc = common.real_loads(text)
    if exc is not None:
        return ctx.violation("raises:" + common.exc_key(exc), "loads() raised %s" % common.exc_text(exc), witness)
    c = content.program_content(prog)
    d = content.diff_ref(ref, c, seed="C08")
    if d:
        return ctx.violation(common.diff_key(d), common.diff_text(d), witness)
    # the delivered transforms are what a consumer evaluates later on: they must
    # still compute the written formula after the package's own read-only
    # consumers (serialiser, copy, dependency graph) have looked at the program
    import copy

    from blackbird.utils import to_DiGraph

    for what, use in (("dumps", lambda: prog.serialize()), ("deepcopy", lambda: copy.deepcopy(prog)), ("to_DiGraph", lambda: to_DiGraph(prog))):
        try:
            with common.time_limit(20):
                use()
        except Exception as e:  # not this property's concern (C01/C13/C16 decide those)
            ctx.observe("consumer %s raised %s" % (what, type(e).__name__))
            continue
        d = content.diff_ref(ref, content.program_content(prog), seed="C08")
        if d:
            return ctx.violation("after-%s:" % what + common.diff_key(d), "after %s the program's transforms no longer compute the written formulas: %s" % (what, common.diff_text(d)), witness)
        ctx.hook("transforms re-checked after " + what)
    # measurement outcomes are often integers (photon numbers): a transform given Python integers must compute the
    # same formula as with the equal floats - no wrap-around in fixed-width integer arithmetic, no integer division
    import random as _random

    for o in c["ops"]:
        for a in list(o["args"] or []) + [v for _, v in (o["kwargs"] or [])]:
            if content.kind(a) != "regref":
                continue
            rr_ = _random.Random("C08-int/%s/%s" % (text, a.func_str if hasattr(a, "func_str") else ""))
            for scale in (7, 3000, 4000000, 3000000000):
                ints = [rr_.randint(max(2, scale // 3), scale) * rr_.choice([1, 1, -1]) for _ in a.regrefs]
                try:
                    with common.time_limit(10):
                        ff = complex(a.func(*[float(x) for x in ints]))
                        f2 = complex(a.func(*[float(x) * (1 + 1e-12) for x in ints]))
                except Exception:
                    continue
                if not (math.isfinite(ff.real) and math.isfinite(ff.imag)) or abs(ff) == 0 or abs(f2 - ff) > 1e-7 * abs(ff):
                    continue    # not finite or not well conditioned at this point: no verdict
                ctx.hook("transform evaluated at integer measurement values")
                try:
                    with common.time_limit(10):
                        fi = complex(a.func(*ints))
                except Exception as e:
                    return ctx.violation("integer-measurement:raises:" + type(e).__name__,
                                         "transform %s raised %s for the integer measurement values %s (fine with the equal floats: %r)" % (a, common.exc_text(e), ints, ff), witness)
                if not abs(fi - ff) <= 1e-6 * abs(ff):
                    return ctx.violation("integer-measurement:value", "transform %s gives %r for the integer measurement values %s and %r for the equal floats" % (a, fi, ints, ff), witness)
    # record the listed orders of multi-register transforms (evidence of order diversity)
    h = hashlib.sha1(text.encode()).hexdigest()[:12]
    orders = ctx.extra.setdefault("orders", {})
    k = 0
    for o in c["ops"]:
        for a in list(o["args"] or []) + [v for _, v in (o["kwargs"] or [])]:
            if content.kind(a) == "regref":
                ctx.hook("RegRefTransform observed")
                if len(a.regrefs) > 1:
                    orders["%s/%d" % (h, k)] = list(a.regrefs)
                k += 1


def run(ctx):
    g = common.grammar()
    groups = max(1, ctx.nworkers // SEEDS)
    group = ctx.worker // SEEDS
    if group >= groups:
        group = groups - 1
    if group == 0:
        for e in common.corpus(ID):
            check_text(ctx, e["text"], tags=["corpus"])
    total = ctx.scaled(BUDGET[ctx.tier])
    for i in range(total):
        if i % groups != group:
            continue
        rng = random.Random("%s/C08/%d" % (ctx.seed, i))
        try:
            text, exprs = build(rng, g)
        except RuntimeError:
            ctx.out_of_domain("generator gave up")
            continue
        check_text(ctx, text)
    ctx.observe("transform evaluations at complex measurement values", content.COMPLEX_PROBES[0])
    ctx.extra["hashseed"] = __import__("os").environ.get("PYTHONHASHSEED")


def finish(tier, seed, results, extra):
    merged = {}
    for r in results:
        for k, order in r.get("extra", {}).get("orders", {}).items():
            merged.setdefault(k, set()).add(tuple(order))
    multi = sum(1 for v in merged.values() if len(v) >= 2)
    seeds = sorted({str(r.get("extra", {}).get("hashseed")) for r in results})
    out = {"obs": {"multi-register transforms observed": len(merged), "transforms seen with >=2 different listed orders across hash seeds": multi,
                   "hash seeds used: " + ",".join(seeds): 1}, "problems": [], "violations": []}
    if merged and multi == 0:
        out["problems"].append("no register-order diversity observed across hash seeds (the sweep did not exercise different set orders)")
    return out


def replay(w):
    class C:
        res = None
        extra = {}

        def out_of_domain(self, r):
            pass

        def case(self, *a, **k):
            pass

        def sample(self, *a, **k):
            pass

        def hook(self, *a, **k):
            pass

        def violation(self, key, summary, witness):
            self.res = "%s: %s" % (key, summary)

    c = C()
    check_text(c, w["text"])
    return c.res
