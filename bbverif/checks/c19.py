"""C19 - loading and serialising are deterministic across runs and hash seeds.

Configuration sweep: the same batch of scripts is executed in K worker processes
with different PYTHONHASHSEED values (one of them 'random'); each records, per
script, a digest of the canonical content (register order canonicalised, staying
paired with the function) and of the ``dumps`` text.  The digests are compared
across processes offline.  The listed register orders are recorded so the
evidence shows that the seeds really produced different set orders.
"""
import hashlib
import json
import os
import random
import shutil
import tempfile

from .. import common, content, gen
from . import c07

ID = "C19"
LEVEL = "exploration"
TECHNIQUE = "runtime configuration sweep over PYTHONHASHSEED with an offline comparison of per-script content and serialisation digests across processes"
RULE = ("a batch of scripts biased to what iterates sets - several template parameters in one argument (overlapping names), several registers in "
        "one argument, includes on >=3 non-contiguous modes, many modes - executed in K processes (6 quick, 16 thorough: seeds 0..K-2 plus "
        "'random'); non-trivial = a script with >=2 parameters or >=2 registers in one argument, or an include on >=3 modes; distinct by SHA-1 "
        "of the script (evaluations = script executions over all processes)"
        '; include calls with positional values or faulty keywords (the outcome, whatever it is, must not depend on the hash seed)')
BUDGET = {"quick": 700, "thorough": 5000}   # scripts per process
WORKERS = {"quick": 6, "thorough": 16}
MIN_NONTRIVIAL = {"quick": 200, "thorough": 1500}
REQUIRED_FUNCTIONS = ["program.py:BlackbirdProgram.serialize", "listener.py:RegRefTransform.__init__", "listener.py:BlackbirdListener.exitStatement", "program.py:_format_value"]
FUNCTIONS = REQUIRED_FUNCTIONS
REQUIRED_TAGS = ["param-multi", "regref-multi", "include>=3-modes", "symbolic-include-argument", "regref-multi-in-included-program", "tdm-parameter-valued-variable", "include-call-positional"]
ASSUMPTIONS = ["the documented freedom (order in which a register transform lists its registers) is canonicalised: sorted register set + function values fed in the listed order"]


def normalise_message(msg):
    import re

    def fix(m):
        return "{" + ", ".join(sorted(x.strip() for x in m.group(1).split(","))) + "}"

    return re.sub(r"\{([^{}]*)\}", fix, msg)


def worker_env(w, n, tier):
    return {"PYTHONHASHSEED": "random" if w == n - 1 else str(w * 101 + (0 if w else 0))}


def make_script(rng, g):
    c = rng.random()
    if c < 0.25:
        # include tree
        rr = rng.random() < 0.4
        files, main_path, info = c07.build(rng, g, symbolic_args=rng.random() < 0.4, regref_args=rr)
        extra_ = set()
        if rng.random() < 0.3:
            # calls the language refuses (or might one day accept): positional values for an included template, wrong
            # keywords, wrong arity - whatever the outcome is, it must be the same under every hash seed
            subs_ = {s_[0]: s_ for s_ in info["subs"]}
            ls_ = files[main_path].split("\n")
            idx_ = [i_ for i_, ln_ in enumerate(ls_) if ln_.split("(")[0].split(" ")[0] in subs_ and len(subs_[ln_.split("(")[0].split(" ")[0]][3] or []) >= 2 and "|" in ln_]
            if idx_ and rng.random() < 0.7:
                i_ = rng.choice(idx_)
                nm_ = ls_[i_].split("(")[0].split(" ")[0]
                vals_ = ["0.25", "0.5", "0.75", "1.25", "2", "3.5", "-1", "4"]
                rng.shuffle(vals_)
                ls_[i_] = ls_[i_][: len(ls_[i_]) - len(ls_[i_].lstrip())] + "%s(%s) |%s" % (nm_, ", ".join(vals_[: len(subs_[nm_][3])]), ls_[i_].rsplit("|", 1)[1])
                files = dict(files)
                files[main_path] = "\n".join(ls_)
                extra_ = {"include-call-positional"}
            else:
                nv_ = c07.negative_variant(rng, files, main_path, info)
                if nv_:
                    files = nv_[0]
                    extra_ = {"include-call-faulty"}
        if extra_:
            return ("tree", files, main_path, extra_ | {"include"})
        return ("tree", files, main_path, ({"include>=3-modes"} if any(s[2] >= 3 for s in info["subs"]) else {"include"}) | (info["tags"] & {"symbolic-include-argument"})
                | ({"regref-multi-in-included-program"} if rr else set()))
    if c < 0.33:
        # tdm script with several variables, one of them holding a free parameter (serialised variable block)
        from . import c15

        text, tags_, _p = c15.build(rng, g, tdm=True)
        ls = text.rstrip("\n").split("\n")
        at = next(i for i, ln in enumerate(ls) if ln.startswith("type tdm")) + 1
        nm = "sc_%d" % rng.randint(0, 99)
        ls.insert(at + 1, "float %s = %s" % (nm, rng.choice(["{gain_}", "2*{gain_}", "{gain_} - {offs_}"])))
        ls.append("Rgate(%s) | 0" % nm)
        return ("text", "\n".join(ls) + "\n", None, {"tdm-parameter-valued-variable"})
    hostile = ["r", "rr", "r1", "a", "a1", "alpha", "al", "e", "E", "I", "S", "N", "p0", "p01", "phi", "phi2", "ph", "x", "xx", "x_1", "theta", "theta1"]
    if rng.random() < 0.3:
        # a name next to the same name with a suffix
        base_ = rng.choice(["phi", "r", "a", "theta", "x", "p0"])
        hostile = [base_, base_ + rng.choice(["1", "2", "_1", "x", "0"])] + hostile
    G = gen.Gen(rng, g, params=0.0, regrefs=0.0, layout=0.0, funcs=False, hostile_names=0.5)
    lines, _ = G.metadata()
    lines.append("")
    tags = set()
    for _ in range(rng.randint(1, 6)):
        k = rng.random()
        if k < 0.45:
            ps = list(dict.fromkeys(hostile[:2] + rng.sample(hostile, rng.randint(1, 4)))) if hostile[1].startswith(hostile[0]) else rng.sample(hostile, rng.choice([2, 3, 4, 5, 5, 8, 12]))
            terms = ["%s*{%s}" % (rng.choice(["2", "0.5", "1.5e-7", "3", "1"]), p) for p in ps]
            if rng.random() < 0.4:
                terms.append("{%s}*{%s}" % tuple(rng.sample(ps, 2)))
            e = terms[0]
            for t in terms[1:]:
                e += rng.choice([" + ", " - "]) + t
            tags.add("param-multi")
            slot = rng.choice(["(%s)", "(k=%s)", "(k=[%s, 1])", "(1, %s)"])
            lines.append(G.opname() + slot % e + " | " + G.modes_text(G.pick_modes(4)))
        elif k < 0.85:
            rs = rng.sample([0, 1, 2, 3, 5, 7, 10, 12, 31, 64, 120, 99, 100, 999, 1000, 1001, 65535], rng.choice([2, 3, 4, 5, 5, 8, 11]))
            terms = ["%s*q%d" % (rng.choice(["2", "0.5", "3", "1"]), r_) for r_ in rs]
            e = terms[0]
            for t in terms[1:]:
                e += rng.choice([" + ", " - ", " * "]) + t
            tags.add("regref-multi")
            slot = rng.choice(["(%s)", "(k=%s)", "(1, %s)"])
            lines.append(G.opname() + slot % e + " | " + G.modes_text(G.pick_modes(4)))
        else:
            lines.append(G.statement(allow_sym=False))
    return ("text", "\n".join(lines) + "\n", None, tags)


def run(ctx):
    import blackbird

    g = common.grammar()
    n = ctx.scaled(BUDGET[ctx.tier])
    digests = {}
    orders = {}
    root = os.path.realpath(tempfile.mkdtemp(prefix="bbv-c19-"))
    try:
        items = [("text", e["text"], None, {"corpus"}) for e in common.corpus(ID)]
        for i in range(n):
            rng = random.Random("%s/C19/%d" % (ctx.seed, i))
            try:
                items.append(make_script(rng, g))
            except RuntimeError:
                items.append(None)
        for i, it in enumerate(items):
            if it is None:
                continue
            kind, payload, main_path, tags = it
            exc = None
            P = None
            if kind == "tree":
                d = os.path.join(root, "t%d" % i)
                c07.materialise(d, payload)
                ident = json.dumps(sorted((k_, v_ if isinstance(v_, str) else sorted(v_.items())) for k_, v_ in payload.items()))
                k = c07.ref_of(payload, main_path, d)
                if k[0] in ("nosentence", "refbug"):
                    ctx.out_of_domain("tree not grammatical")
                    continue
                if k[0] != "ok":
                    ctx.observe("script outside the reference's domain, compared all the same")
                try:
                    P = blackbird.load(os.path.join(d, main_path))
                except Exception as e:
                    exc = e
            else:
                ident = payload
                try:
                    ok_, bad_, toks_ = g.is_sentence(payload)
                except ValueError:
                    ok_ = False
                if not ok_:
                    ctx.out_of_domain("script not grammatical")
                    continue
                P, exc = common.real_loads(payload)
            nt = bool(tags & {"param-multi", "regref-multi", "include>=3-modes"})
            h = ctx.case(ident, nt, tags=sorted(tags))
            ctx.sample({"script": ident[:600]}, limit=1)
            if exc is not None:
                # the outcome of a failing load must not depend on the hash seed either
                msg = normalise_message(str(exc)).replace(root, "<tmp>")
                digests[str(i)] = [h, "exc:" + type(exc).__name__, hashlib.sha1(msg.encode()).hexdigest(), "raises %s: %s" % (type(exc).__name__, msg[:300])]
                continue
            cj = content.content_jsonable(content.program_content(P), with_vars=True)
            cd = hashlib.sha1(json.dumps(cj, sort_keys=True).encode()).hexdigest()
            try:
                t = blackbird.dumps(P)
            except Exception as e:
                t = "dumps-raises:" + type(e).__name__
            digests[str(i)] = [h, cd, hashlib.sha1(t.encode()).hexdigest(), t if len(t) < 1500 else t[:1500]]
            ro = []
            for o in P.operations:
                for a in list(o.get("args", [])) + list(o.get("kwargs", {}).values()):
                    if content.kind(a) == "regref" and len(a.regrefs) > 1:
                        ro.append(list(a.regrefs))
            if ro:
                orders[str(i)] = ro
    finally:
        shutil.rmtree(root, ignore_errors=True)
    ctx.extra["digests"] = digests
    ctx.extra["orders"] = orders
    ctx.extra["hashseed"] = os.environ.get("PYTHONHASHSEED")


def finish(tier, seed, results, extra):
    out = {"violations": [], "problems": [], "obs": {}}
    per = [r.get("extra", {}) for r in results]
    if len(per) < 2:
        out["problems"].append("fewer than two processes produced digests")
        return out
    seeds = [str(p.get("hashseed")) for p in per]
    out["obs"]["hash seeds: " + ",".join(seeds)] = 1
    keys = set()
    for p in per:
        keys |= set(p.get("digests", {}))
    compared = 0
    diverse = 0
    for k in sorted(keys, key=int):
        rows = [(s, p["digests"][k]) for s, p in zip(seeds, per) if k in p.get("digests", {})]
        if len(rows) < 2:
            continue
        if len({r[1][0] for r in rows}) > 1:
            out["problems"].append("script %s was not generated identically in all processes (generator depends on the hash seed)" % k)
            continue
        compared += 1
        cds = {}
        tds = {}
        for s, d in rows:
            cds.setdefault(d[1], []).append(s)
            tds.setdefault(d[2], (d[3], []))[1].append(s)
        if len(cds) > 1:
            out["violations"].append(("content-depends-on-hash-seed", "script #%s: loaded content differs between hash seeds %s" % (k, list(cds.values())),
                                      {"script_index": int(k), "serialisations": {",".join(v[1]): v[0] for v in tds.values()}}))
        elif len(tds) > 1:
            out["violations"].append(("serialisation-depends-on-hash-seed", "script #%s: dumps text differs between hash seeds %s" % (k, [v[1] for v in tds.values()]),
                                      {"script_index": int(k), "serialisations": {",".join(v[1]): v[0] for v in tds.values()}}))
        os_ = {json.dumps(p.get("orders", {}).get(k)) for p in per if k in p.get("orders", {})}
        if len(os_) > 1:
            diverse += 1
    out["obs"]["scripts compared across all processes"] = compared
    out["obs"]["scripts whose register transforms were listed in >=2 different orders across seeds"] = diverse
    if compared and diverse == 0:
        out["problems"].append("no register-order diversity across hash seeds: the sweep did not produce different set orders")
    if compared == 0:
        out["problems"].append("nothing was compared across processes")
    return out


def replay(w):
    # a hash-seed dependence cannot be replayed inside one process; re-run the check with the recorded seed
    return None
