"""C17 - template matching inverts instantiation, independent of commuting order.

Metamorphic monitor: P = T(**v); for P and for random reorderings of P that
preserve the per-mode order, ``match_template(T, P')`` must succeed and the
returned values, fed back into T, must reproduce P's arguments; one structural
edit (gate, mode list, per-mode order, version, target) must be rejected with
TemplateError.
"""
import copy

import numpy as np
import sympy as sym

from .. import common, content, gen

ID = "C17"
LEVEL = "exploration"
TECHNIQUE = "runtime metamorphic monitor: match_template(T, reordered T(**v)) fed back into T; fault injection of single structural edits"
RULE = ("templates of 1-15 operations on 1-5 modes whose positional arguments are affine in at most one parameter ({p}, -{p}, a*{p}+b, {p}/c), "
        "parameters repeated across operations and positions, constants elsewhere; generic real values; the instance itself and 2 (quick) / 6 "
        "(thorough) random linear extensions of its per-mode order, then a second instantiation of the same template object with other values; values of "
        "magnitude 1e-10..1e7; every fourth case also a tdm template with bare parameters matched against the tdm program that passes p-arrays by name (the returned values must be the declared arrays); one structural edit per negative case; non-trivial = >=3 operations, a "
        "repeated parameter and (a reordering that differs from the identity or a negative case); distinct by SHA-1 of template+values+order"
        '; a third instantiation with NumPy-typed and complex values')
BUDGET = {"quick": 1200, "thorough": 16000}
MIN_NONTRIVIAL = {"quick": 600, "thorough": 6000}
REQUIRED_FUNCTIONS = ["utils.py:match_template", "utils.py:to_DiGraph", "program.py:BlackbirdProgram.__call__"]
FUNCTIONS = REQUIRED_FUNCTIONS + ["utils.py:match_template.<locals>.node_match"]
REQUIRED_TAGS = ["reordered", "repeated-parameter", "form:bare", "form:negated", "form:affine", "form:divided", "neg:gate", "neg:modes", "neg:modes-permuted", "neg:modes-same-digits", "neg:order", "neg:version", "neg:version-same-value", "neg:target", "neg:target-removed", "edit-in-place-after-match", "second-instantiation-after-match", "value:small-or-large", "tdm", "tdm:repeated-parameter", "typed-or-complex-values"]
ASSUMPTIONS = ["per-mode order = order of operations sharing a mode (register arguments are not generated here)", "returned values are compared through the arguments they reproduce; allowed difference per argument a*p+b: 1e-9*|a|*max over the occurrences a_j*p+b_j of p of (|a_j p|+|b_j|)/|a_j|"]


def build(rng, g):
    G = gen.Gen(rng, g, layout=0.0, funcs=False, hostile_names=0.3)
    nm = rng.randint(1, 5)
    pool = rng.sample(list(range(0, 9)) + ([10, 11, 12, 21, 100, 101] if rng.random() < 0.3 else []), nm)
    n = rng.randint(1, 15)
    nparams = rng.randint(1, 4)
    if rng.random() < 0.05:
        n = rng.choice([25, 40])
        nparams = rng.choice([6, 9])
        nm = rng.choice([5, 8])
        pool = rng.sample(range(0, 30), nm)
    params = []
    while len(params) < nparams:
        p = G.ident(fresh=False)
        if p not in params and not __import__("keyword").iskeyword(p):
            params.append(p)
    tags = set()
    lines = ["name " + G.ident(), "version 1.0"]
    if rng.random() < 0.5:
        lines.append("target " + rng.choice(["dev", "X8", "gaussian"]))
    lines.append("")
    used = []
    ops = []
    for _ in range(n):
        k = rng.choice([1, 1, 2, 2, 3])
        ms = rng.sample(pool, min(k, len(pool)))
        args = []
        for _ in range(rng.choice([0, 1, 1, 2, 3])):
            c = rng.random()
            if c < 0.65:
                p = rng.choice(params)
                if p in used:
                    tags.add("repeated-parameter")
                used.append(p)
                form = rng.choice(["bare", "negated", "affine", "affine", "divided"])
                tags.add("form:" + form)
                if form == "bare":
                    args.append("{%s}" % p)
                elif form == "negated":
                    args.append("-{%s}" % p)
                elif form == "affine":
                    a = rng.choice(["2", "0.5", "1.5", "-3", "pi", "0.25"])
                    b = rng.choice(["1", "0.1", "2.5", "pi/2"])
                    args.append(rng.choice(["%s*{%s}%s%s", "%s*{%s} %s %s"]) % (a, p, rng.choice(["+", "-"]), b))
                else:
                    args.append("{%s}/%s" % (p, rng.choice(["2", "3", "0.7", "pi"])))
            else:
                args.append(rng.choice(["0.45", "1", "pi/4", "-0.3", "2*0.1", "7"]))
        kw = rng.choice(["", "", ", k=1", ", flag=True"]) if args else rng.choice(["", "k=2"])
        al = "(" + ", ".join(args) + kw + ")" if (args or kw or rng.random() < 0.4) else ""
        if al == "(, k=1)":
            al = "(k=1)"
        opn = rng.choice(gen.GATE_NAMES[:10])
        ops.append((opn, ms))
        lines.append("%s%s | [%s]" % (opn, al, ", ".join(str(m) for m in ms)))
    missing = [p for p in params if p not in used]
    for p in missing:
        lines.append("Rgate({%s}) | %d" % (p, rng.choice(pool)))
        tags.add("form:bare")
    vals = {p: rng.choice([-1, 1]) * round(rng.uniform(0.2, 3.0), rng.choice([2, 4, 12])) for p in params}
    for p in params:
        c = rng.random()
        if c < 0.06:
            vals[p] = rng.choice([1.0, -1.0, 2.0, 0.5, 10.0, 100.0, 3.0])   # "round" values
        elif c < 0.2:
            vals[p] = rng.choice([-1, 1]) * rng.uniform(1, 9) * 10 ** rng.choice([-10, -8, -6, -3, 3, 6])
            tags.add("value:small-or-large")
    return "\n".join(lines) + "\n", vals, tags


def linear_extension(ops, rng):
    """Random reordering that keeps the order of operations sharing a mode."""
    n = len(ops)
    preds = {j: {i for i in range(j) if set(ops[i]["modes"]) & set(ops[j]["modes"])} for j in range(n)}
    done = []
    left = set(range(n))
    while left:
        ready = [j for j in left if preds[j] <= set(done)]
        j = rng.choice(ready)
        done.append(j)
        left.remove(j)
    return done


NO_TARGET = object()


def program_with(P, ops, version=None, target=None):
    Q = copy.deepcopy(P)
    Q._operations = ops
    if version is not None:
        Q._version = version
    if target is not None:
        Q._target["name"] = None if target is NO_TARGET else target
        if target is NO_TARGET:
            Q._target["options"] = {}
    return Q


def beyond_rounding(T, true_prog, back_prog, vals):
    """Per positional argument a*p + b: the value reproduced from the returned
    parameters against the instantiated one.  The program's arguments determine
    p only up to the rounding of the occurrence it is solved from - a few ulps of
    (|a p| + |b|)/|a| - and the property does not say which occurrence that is,
    so the bound for p is the worst one over its occurrences, and an argument
    a_k*p + b_k may be off by |a_k| times that (times 1e-9/eps of slack).
    Returns a description of the first argument that is further off."""
    occ = []
    cond = {}
    for i, top in enumerate(T.operations):
        for j, targ in enumerate(top.get("args") or []):
            if not isinstance(targ, sym.Expr) or len(targ.free_symbols) != 1:
                continue
            (s_,) = targ.free_symbols
            if str(s_) not in vals:
                continue
            v0 = complex(vals[str(s_)])
            sub = {s_: sym.Float(v0.real, 17) + sym.I * sym.Float(v0.imag, 17) if v0.imag else sym.Float(v0.real, 17)}
            try:
                mag = sum(abs(complex(t.xreplace(sub))) for t in sym.Add.make_args(sym.expand(targ)))
                slope = abs(complex(sym.diff(targ, s_).xreplace(sub)))
            except Exception:
                continue
            if slope == 0:
                continue
            occ.append((i, j, targ, str(s_), slope))
            cond[str(s_)] = max(cond.get(str(s_), 0.0), mag / slope)
    for i, j, targ, name, slope in occ:
        try:
            a = complex(true_prog.operations[i]["args"][j])
            b = complex(back_prog.operations[i]["args"][j])
        except Exception:
            continue
        tol = 1e-9 * slope * cond[name] + 1e-300
        if abs(a - b) > tol:
            return "operation %d argument %d (%s): instantiated value %r, value from the returned parameters %r, allowed difference %.3g" % (i, j, targ, a, b, tol)
    return None


def match_round(ctx, T, P, Q, vals, cfg, w, what):
    """match Q (an arrangement of the instance P) against T; the returned values must reproduce P."""
    from blackbird.utils import match_template

    try:
        with common.time_limit(20):
            res = match_template(T, Q)
    except common.Timeout:
        ctx.observe("match_template stopped after 20 s (not a verdict)")
        return True
    except Exception as e:
        ctx.violation("match-raises:" + common.exc_key(e), "match_template raised %s for %s" % (common.exc_text(e), what), w)
        return False
    missing = set(vals) - set(res)
    if missing:
        ctx.violation("parameter-not-returned", "match_template returned no value for %s (%s)" % (sorted(missing), what), w)
        return False
    try:
        back = T(**{k_: res[k_] for k_ in vals})
    except Exception as e:
        ctx.violation("returned-values-unusable:" + type(e).__name__, "feeding the returned values back raised %s" % common.exc_text(e), w)
        return False
    far = beyond_rounding(T, P, back, vals)
    if far:
        ctx.violation("returned-values-wrong:beyond-rounding", "%s: returned %s for true %s: %s" % (what, {k_: complex(res[k_]) for k_ in vals}, vals, far), w)
        return False
    d = content.diff_real(content.program_content(P), content.program_content(back), cfg)
    if d:
        ctx.violation("returned-values-wrong:" + common.diff_key(d), "%s: returned %s for true %s: %s" % (what, {k_: complex(res[k_]) for k_ in vals}, vals, common.diff_text(d, 2)), w)
        return False
    return True


def check_case(ctx, text, vals, tags, witness=None, typed=None):
    from blackbird.utils import TemplateError, match_template

    witness = witness or {"text": text, "vals": vals}
    kind = common.classify(text)
    if kind[0] != "ok":
        return ctx.out_of_domain("template not valid/in domain (%s)" % (kind[0] if kind[0] != "ood" else kind[1].split(" (")[0]))
    T, exc = common.real_loads(text)
    if exc is not None:
        return ctx.out_of_domain("template does not load")
    if set(T.parameters) != set(vals):
        return ctx.out_of_domain("a parameter cancelled or is missing")
    try:
        P = T(**vals)
    except Exception:
        return ctx.out_of_domain("template cannot be instantiated (C04's business)")
    rng = ctx.rng("order", text)
    n = len(P.operations)
    # arguments are affine a*p+b with |a|,|b| of order one: near a zero of the argument only an absolute tolerance is meaningful
    scale = max([1.0] + [abs(v) for v in vals.values()])
    cfg = content.Cfg(numbers="close", rtol=1e-9, atol=1e-9 * scale, seed="C17")
    target_content = content.program_content(P)
    norders = 1 + (2 if ctx.tier == "quick" else 6)
    for k in range(norders):
        order = list(range(n)) if k == 0 else linear_extension(P.operations, rng)
        t = set(tags)
        reordered = order != list(range(n))
        if reordered:
            t.add("reordered")
        nt = n >= 3 and "repeated-parameter" in tags and reordered
        ctx.case(text + repr(sorted(vals.items())) + repr(order), nt, tags=sorted(t))
        ctx.sample({"template": text, "values": vals, "order": order}, limit=1)
        # the first arrangement is the instance itself, as a user would pass it
        Q = P if k == 0 else program_with(P, [copy.deepcopy(P.operations[i]) for i in order])
        w = dict(witness, order=order)
        if not match_round(ctx, T, P, Q, vals, cfg, w, "a reordered instance" if reordered else "the instance"):
            return
    # a second instantiation of the same template object, made after it has been matched
    rng2 = ctx.rng("second", text)
    vals2 = {k_: (v_ * rng2.choice([0.5, -1.25, 3.0]) + rng2.choice([0.0, 0.375, -0.0625])) or 0.5 for k_, v_ in vals.items()}
    try:
        P2 = T(**vals2)
    except Exception:
        P2 = None
    if P2 is not None:
        scale2 = max([1.0] + [abs(v) for v in vals2.values()])
        cfg2 = content.Cfg(numbers="close", rtol=1e-9, atol=1e-9 * scale2, seed="C17")
        ctx.case(text + repr(sorted(vals2.items())) + "second", n >= 3, tags=sorted(set(tags) | {"second-instantiation-after-match"}))
        if not match_round(ctx, T, P2, P2, vals2, cfg2, dict(witness, second_values=vals2), "a second instantiation made after the first match"):
            return
    # a third instantiation with NumPy-typed and complex values (what arithmetic in a script, or a caller working with
    # NumPy, delivers): the returned values must reproduce these arguments too
    rng3 = ctx.rng("typed", text)
    vals3 = {}
    for k_, v_ in vals.items():
        c_ = rng3.random()
        if c_ < 0.3:
            vals3[k_] = np.float64(v_)
        elif c_ < 0.55:
            vals3[k_] = np.complex128(complex(v_, rng3.choice([-1, 1]) * rng3.uniform(0.2, 2.0) * (abs(v_) or 1.0)))
        elif c_ < 0.75:
            vals3[k_] = complex(v_, rng3.choice([-0.5, 0.25, 2.0]) * (abs(v_) or 1.0))
        elif c_ < 0.9 and abs(v_) >= 1 and abs(v_) < 1e6:
            vals3[k_] = np.int64(int(v_))
        else:
            vals3[k_] = float(v_) * 1.5
    if typed:
        vals3 = {k_: complex(*v_) for k_, v_ in typed.items()}     # corpus witness with fixed complex values
    try:
        P3 = T(**vals3)
    except Exception:
        P3 = None
    if P3 is not None:
        scale3 = max([1.0] + [abs(v) for v in vals3.values()])
        cfg3 = content.Cfg(numbers="close", rtol=1e-9, atol=1e-9 * scale3, seed="C17")
        ctx.case(text + repr(sorted((k_, complex(v_)) for k_, v_ in vals3.items())) + "typed", n >= 3, tags=sorted(set(tags) | {"typed-or-complex-values"}))
        if not match_round(ctx, T, P3, P3, vals3, cfg3, dict(witness, typed_values={k_: repr(v_) for k_, v_ in vals3.items()}), "an instantiation with NumPy-typed / complex values"):
            return
    # one structural edit
    edits = ["gate", "modes", "version", "target"]
    if P.target.get("name") is not None:
        # the program declares no target at all although the template does
        edits.append("target-removed")
    pairs = [(i, j) for j in range(n) for i in range(j) if set(P.operations[i]["modes"]) & set(P.operations[j]["modes"])
             and not any(set(P.operations[m]["modes"]) & (set(P.operations[i]["modes"]) | set(P.operations[j]["modes"])) for m in range(i + 1, j))
             and (P.operations[i]["op"], P.operations[i]["modes"]) != (P.operations[j]["op"], P.operations[j]["modes"])]
    if pairs:
        edits.append("order")
        edits.append("order")
    multi = [i for i in range(n) if len(set(P.operations[i]["modes"])) >= 2]
    if multi:
        edits += ["modes-permuted", "modes-permuted"]
    # a different mode list whose digits read the same when written without separators ([1, 12] vs [11, 2], [12] vs [1, 2])
    samedigits = []
    for i in range(n):
        ms = [int(m) for m in P.operations[i]["modes"]]
        digits = "".join(str(m) for m in ms)
        for cut in range(1, len(digits)):
            alt = [int(digits[:cut]), int(digits[cut:])] if digits[cut] != "0" else None
            if alt and alt != ms and len(set(alt)) == len(alt):
                samedigits.append((i, alt))
        if len(ms) >= 2 and len(digits) <= 3:
            samedigits.append((i, [int(digits)]))
    if samedigits:
        edits += ["modes-same-digits"] * 2
    edits += ["version-same-value"]
    edit = rng.choice(edits)
    ops = copy.deepcopy(P.operations)
    ver = tgt = None
    if edit == "gate":
        ops[rng.randrange(n)]["op"] = "Othergate"
    elif edit == "modes":
        o = ops[rng.randrange(n)]
        o["modes"] = [m + 20 for m in o["modes"]] if rng.random() < 0.5 else o["modes"] + [33]
    elif edit == "modes-permuted":
        o = ops[rng.choice(multi)]
        o["modes"] = o["modes"][1:] + o["modes"][:1]
    elif edit == "modes-same-digits":
        i, alt = rng.choice(samedigits)
        ops[i]["modes"] = alt
    elif edit == "version-same-value":
        # another version text with the same numeric value
        ver = {"1.0": rng.choice(["1.00", "1.0e0", "01.0"])}.get(P.version, P.version + "0")
    elif edit == "version":
        ver = "2.0"
    elif edit == "target":
        tgt = "another_device"
    elif edit == "target-removed":
        tgt = NO_TARGET
    else:
        i, j = rng.choice(pairs)
        ops[i], ops[j] = ops[j], ops[i]
    Q = program_with(P, ops, version=ver, target=tgt)
    if rng.random() < 0.4:
        # the same program object: matched successfully first, then edited in place, then matched again
        Q0 = program_with(P, copy.deepcopy(P.operations))
        try:
            with common.time_limit(20):
                match_template(T, Q0)
            Q0._operations[:] = ops
            if ver is not None:
                Q0._version = ver
            if tgt is not None:
                Q0._target["name"] = None if tgt is NO_TARGET else tgt
            Q = Q0
            tags = set(tags) | {"edit-in-place-after-match"}
        except Exception:
            pass
    ctx.case(text + repr(sorted(vals.items())) + "edit:" + edit, True, tags=sorted(set(tags) | {"neg:" + edit}))
    w = dict(witness, edit=edit)
    try:
        with common.time_limit(20):
            res = match_template(T, Q)
    except common.Timeout:
        ctx.observe("match_template stopped after 20 s (not a verdict)")
        return
    except TemplateError:
        ctx.observe("structural edit rejected with TemplateError")
        return
    except Exception as e:
        return ctx.violation("edit-wrong-exception:%s:%s" % (edit, type(e).__name__), "a program with a different %s raised %s instead of TemplateError" % (edit, common.exc_text(e)), w)
    return ctx.violation("edit-accepted:" + edit, "a program with a different %s was matched: %s" % (edit, res), w)


def build_tdm(rng):
    """A tdm template with bare parameters and the tdm program that passes one
    p-array per parameter by name (how such templates are used: the arrays are
    the values).  Returns template text, program text, {parameter: (p-name, rows)}."""
    nparams = rng.randint(1, 4)
    params = []
    while len(params) < nparams:
        p = rng.choice(["s", "r", "bs", "offset", "phi", "alpha", "t1", "x_"]) + rng.choice(["", "", "1", "2"])
        if p not in params:
            params.append(p)
    length = rng.choice([1, 2, 3, 5, 8])
    pnums = rng.sample(range(0, 40), nparams)
    assign = {}
    decl = []
    for p, k in zip(params, pnums):
        vt = rng.choice(["float", "float", "int"])
        row = [rng.randint(-9, 9) if vt == "int" else round(rng.uniform(-3, 3), rng.choice([1, 3, 6])) for _ in range(length)]
        assign[p] = ("p%d" % k, vt, row)
        decl.append("%s array p%d =\n    %s" % (vt, k, ", ".join(repr(x) for x in row)))
    head = ["version 1.0", "target TD_dev (shots=%d)" % rng.randint(1, 9), "type tdm (temporal_modes=%d, copies=1)" % length, ""]
    ops = []
    used = []
    nops = rng.randint(max(1, nparams), 8)
    for i in range(nops):
        args = []
        for _ in range(rng.choice([1, 1, 2])):
            if rng.random() < 0.7:
                p = params[i] if i < nparams and not args else rng.choice(params)
                used.append(p)
                args.append("{%s}" % p)
            else:
                args.append(rng.choice(["0.0", "1.5707963267948966", "0.5", "2"]))
        ms = rng.sample([0, 1, 2, 42, 43], rng.choice([1, 1, 2]))
        ops.append((rng.choice(["Sgate", "Rgate", "BSgate", "Dgate", "Zgate"]), args, ms))
    for p in params:
        if p not in used:
            ops.append(("Rgate", ["{%s}" % p], [rng.choice([0, 1, 43])]))
            used.append(p)
    ops.append(("MeasureFock", None, [0]))

    def render(sub):
        out = []
        for name, args, ms in ops:
            al = "()" if args is None else "(" + ", ".join(sub(a) for a in args) + ")"
            out.append("%s%s | %s" % (name, al, ms[0] if len(ms) == 1 else "[%s]" % ", ".join(str(m) for m in ms)))
        return out

    template = "\n".join(["name tdm_template"] + head + render(lambda a: a)) + "\n"
    program = "\n".join(["name tdm_prog"] + head + decl + [""] + render(lambda a: assign[a[1:-1]][0] if a.startswith("{") else a)) + "\n"
    repeated = len(used) > len(set(used))
    return template, program, assign, repeated


def check_tdm(ctx, template, program, assign, repeated):
    import numpy as np
    from blackbird.utils import match_template

    witness = {"tdm_template": template, "tdm_program": program}
    for t in (template, program):
        k = common.classify(t)
        if k[0] != "ok":
            return ctx.out_of_domain("tdm pair not valid/in domain (%s)" % k[0])
    T, e1 = common.real_loads(template)
    P, e2 = common.real_loads(program)
    if e1 is not None or e2 is not None:
        return ctx.out_of_domain("tdm pair does not load (C15's business)")
    ctx.case(template + program, True, tags=["tdm", "tdm:repeated-parameter" if repeated else "tdm:single-use"])
    ctx.sample({"tdm_template": template, "tdm_program": program}, limit=1)
    try:
        with common.time_limit(20):
            res = match_template(T, P)
    except common.Timeout:
        return ctx.observe("match_template stopped after 20 s (not a verdict)")
    except Exception as e:
        return ctx.violation("tdm-match-raises:" + common.exc_key(e), "match_template raised %s for a tdm program passing p-arrays by name" % common.exc_text(e), witness)
    for p, (pname, vt, row) in assign.items():
        if p not in res:
            return ctx.violation("tdm-parameter-not-returned", "no value returned for %s (passed as %s)" % (p, pname), witness)
        got = np.asarray(res[p])
        want = np.array([row], dtype=int if vt == "int" else float)
        if got.shape != want.shape or got.dtype.kind != want.dtype.kind or not np.array_equal(got, want):
            return ctx.violation("tdm-returned-array-wrong", "parameter %s was passed the p-array %s = %s, match_template returned %r" % (p, pname, row, res[p]), witness)
    ctx.hook("tdm match returned the declared p-arrays")


def run(ctx):
    g = common.grammar()
    if ctx.worker == 0:
        for e in common.corpus(ID):
            check_case(ctx, e["text"], e["vals"], set(e.get("tags", [])), typed=e.get("typed"))
    n = ctx.share(BUDGET[ctx.tier])
    for i in range(n):
        rng = ctx.rng(i)
        try:
            text, vals, tags = build(rng, g)
        except RuntimeError:
            ctx.out_of_domain("generator gave up")
            continue
        check_case(ctx, text, vals, tags)
        if i % 4 == 0:
            check_tdm(ctx, *build_tdm(ctx.rng("tdm", i)))


def replay(w):
    class C:
        res = None
        tier = "thorough"

        def rng(self, *k):
            import random

            return random.Random("replay" + repr(k))

        def out_of_domain(self, r):
            pass

        def case(self, *a, **k):
            pass

        def sample(self, *a, **k):
            pass

        def observe(self, *a, **k):
            pass

        def hook(self, *a, **k):
            pass

        def violation(self, key, summary, witness):
            self.res = "%s: %s" % (key, summary)

    c = C()
    if "tdm_template" in w:
        import re

        assign = {}
        for m in re.finditer(r"(int|float) array (p\d+) =\n    ([^\n]*)", w["tdm_program"]):
            assign[m.group(2)] = (m.group(1), [float(x) if m.group(1) == "float" else int(x) for x in m.group(3).split(",")])
        # map parameters to p-names by position in the two texts
        tl = [ln for ln in w["tdm_template"].split("\n") if "|" in ln]
        pl = [ln for ln in w["tdm_program"].split("\n") if "|" in ln]
        amap = {}
        for a, b in zip(tl, pl):
            for x, y in zip(re.findall(r"\{(\w+)\}|[-\w.]+", a), re.findall(r"(p\d+)|[-\w.]+", b)):
                if x and y and y in assign:
                    amap[x] = (y,) + assign[y]
        check_tdm(c, w["tdm_template"], w["tdm_program"], amap, False)
        return c.res
    for rep in range(5):
        check_case(c, w["text"], w["vals"], set())
        if c.res:
            break
    return c.res
