"""C13 - read-only operations leave programs unchanged; instances are independent.

Invariant at a hook: wrappers around every read-only entry point (serialize,
template call, to_DiGraph, match_template) digest their program arguments before
the call and after it returns or raises; the offline check requires equality of
every recorded pair.  Instances are mutated in many ways and the template and
sibling digests must not move; alias graphs must be disjoint.
"""
import copy
import json

import numpy as np

from .. import common, content, gen, monitor

ID = "C13"
LEVEL = "exploration"
TECHNIQUE = "runtime invariant at hooks (digest of program arguments before/after every read-only entry point) over random operation histories; alias-graph disjointness; mutation of returned instances"
RULE = ("programs and templates from the script generator (argument-less operations, arrays, lists, options, register arguments) x random "
        "histories of 5-40 operations from {dumps, template call with varying values, to_DiGraph, match_template, attribute reads, len, "
        "is_template} interleaved with mutations of returned instances (append/replace operations, in-place array writes, list/option/variable/"
        "mode edits); non-trivial = history with >=3 kinds of read-only operation and (an instance mutation or a graph conversion of a "
        "program with an argument-less operation); distinct by SHA-1 of script+history")
BUDGET = {"quick": 1000, "thorough": 16000}
MIN_NONTRIVIAL = {"quick": 300, "thorough": 3000}
REQUIRED_FUNCTIONS = ["program.py:BlackbirdProgram.serialize", "program.py:BlackbirdProgram.__call__", "utils.py:to_DiGraph", "utils.py:match_template"]
FUNCTIONS = REQUIRED_FUNCTIONS
REQUIRED_HOOKS = ["serialize", "__call__", "to_DiGraph", "match_template"]
REQUIRED_TAGS = ["op:dumps", "op:call", "op:to_DiGraph", "op:match_template", "op:reads", "op:mutate-instance", "has:no-arglist", "has:array-arg", "has:list", "has:regref", "call:array-object"]
ASSUMPTIONS = ["'observably unchanged' = same serialisation text (or same exception class when the program cannot be serialised) and same canonical content incl. variables and parameter list",
               "mutations are applied to returned instances only, never to the template itself"]


def digest(p):
    import blackbird

    c = content.content_jsonable(content.program_content(p), with_vars=True)
    try:
        t = blackbird.BlackbirdProgram.serialize.__wrapped_orig__(p) if hasattr(blackbird.BlackbirdProgram.serialize, "__wrapped_orig__") else p.serialize()
    except Exception as e:
        if isinstance(e, common.Timeout):
            raise   # never a value of a digest
        t = "serialize-raises:" + type(e).__name__
    extra = [str(x) for x in getattr(p, "_parameters", [])], sorted(str(k) for k in getattr(p, "_forvar", {}))
    return json.dumps([c, t, extra], sort_keys=True, default=str)


class Rec:
    pairs = []   # (entry point, changed?, before, after)
    depth = 0


def install_hooks():
    import blackbird
    from blackbird import utils
    from blackbird.program import BlackbirdProgram

    undos = []

    def guard(name, progs_of):
        def mk(orig):
            def wrapper(*a, **k):
                if Rec.depth > 0:
                    return orig(*a, **k)
                progs = progs_of(a, k)
                Rec.depth += 1
                try:
                    with common.watchdog_paused():
                        before = [digest(p) for p in progs]
                finally:
                    Rec.depth -= 1
                try:
                    return orig(*a, **k)
                finally:
                    Rec.depth += 1
                    try:
                        with common.watchdog_paused():
                            after = [digest(p) for p in progs]
                    finally:
                        Rec.depth -= 1
                    for b, x in zip(before, after):
                        Rec.pairs.append((name, b != x, b if b != x else None, x if b != x else None))

            wrapper.__wrapped_orig__ = orig
            return wrapper

        return mk

    isprog = lambda x: isinstance(x, BlackbirdProgram)
    undos.append(monitor.wrap_method(BlackbirdProgram, "serialize", guard("serialize", lambda a, k: [a[0]])))
    undos.append(monitor.wrap_method(BlackbirdProgram, "__call__", guard("__call__", lambda a, k: [a[0]])))
    undos.append(monitor.wrap_function("to_DiGraph", guard("to_DiGraph", lambda a, k: [x for x in list(a) + list(k.values()) if isprog(x)])))
    undos.append(monitor.wrap_function("match_template", guard("match_template", lambda a, k: [x for x in list(a) + list(k.values()) if isprog(x)])))

    def undo():
        for u in undos:
            u()

    return undo


def mutate(rng, inst):
    """Apply one in-place modification to a returned instance; returns a label."""
    ops = inst.operations
    choices = ["append-op", "target-option", "type-option", "variables-new", "modes-add"]
    if ops:
        choices += ["replace-op-name", "op-modes", "op-args-append", "op-kwargs-new"]
        if any(isinstance(a, np.ndarray) for o in ops for a in list(o.get("args", [])) + list(o.get("kwargs", {}).values())):
            choices += ["array-write"] * 3
        if any(isinstance(a, list) for o in ops for a in o.get("kwargs", {}).values()):
            choices += ["list-edit"] * 3
    if any(isinstance(v, np.ndarray) for v in inst.variables.values()):
        choices += ["variable-array-write"] * 2
    m = rng.choice(choices)
    if m == "append-op":
        ops.append({"op": "Zz", "args": [1], "kwargs": {}, "modes": [0]})
    elif m == "target-option":
        inst.target["options"]["zz"] = 1
        inst.target["name"] = "mutated"
    elif m == "type-option":
        inst.programtype["options"]["zz"] = [1, 2]
    elif m == "variables-new":
        inst.variables["zz_new"] = 3.5
    elif m == "modes-add":
        inst.modes.add(999)
    elif m == "replace-op-name":
        rng.choice(ops)["op"] = "Mutated"
    elif m == "op-modes":
        rng.choice(ops)["modes"].append(77)
    elif m == "op-args-append":
        o = rng.choice(ops)
        o.setdefault("args", []).append(5)
        o.setdefault("kwargs", {})
    elif m == "op-kwargs-new":
        o = rng.choice(ops)
        o.setdefault("args", [])
        o.setdefault("kwargs", {})["zz"] = 2
    elif m == "array-write":
        arrs = [a for o in ops for a in list(o.get("args", [])) + list(o.get("kwargs", {}).values()) if isinstance(a, np.ndarray)]
        a = rng.choice(arrs)
        a[(0,) * a.ndim] = 99
    elif m == "list-edit":
        ls = [a for o in ops for a in o.get("kwargs", {}).values() if isinstance(a, list)]
        l = rng.choice(ls)
        l.append(12345)
        if l:
            l[0] = "mut"
    elif m == "variable-array-write":
        arrs = [v for v in inst.variables.values() if isinstance(v, np.ndarray)]
        a = rng.choice(arrs)
        a[(0,) * a.ndim] = -77
    return m


def reads(p):
    _ = (p.name, p.version, p.modes, p.target, p.programtype, p.operations, p.parameters, p.variables, len(p), p.is_template())
    _ = [o.get("op") for o in p.operations]
    repr(p.operations)
    return "reads"


def options_for(rng):
    return dict(params=rng.choice([0.0, 0.2, 0.35]), regrefs=rng.choice([0.0, 0.15]), loops=rng.choice([0.0, 0.3]), arrays=0.6, kwlists=0.5,
                options=0.6, layout=0.0, array_params=rng.choice([0.0, 0.2]), funcs=False, tdm=rng.random() < 0.1, opt_params=rng.choice([0.0, 0.0, 0.3]))


def check_case(ctx, text, seed_key):
    import blackbird
    from blackbird.utils import to_DiGraph, match_template

    # the property speaks about programs: every script that loads is used, whether or not the reference
    # interpreter covers it (e.g. registers inside list arguments); the reference only supplies feature tags
    kind = common.classify(text)
    if kind[0] in ("nosentence", "refbug"):
        return ctx.out_of_domain("script not grammatical")
    P, exc = common.real_loads(text)
    if exc is not None:
        return ctx.out_of_domain("script does not load (other properties' business)")

    class _NoRef:
        features = set()

    ref = kind[1] if kind[0] == "ok" else _NoRef()
    if kind[0] != "ok":
        ctx.observe("program outside the reference's domain, used all the same")
    rng = ctx.rng("hist", seed_key)
    tags = set()
    if "no-arglist" in ref.features:
        tags.add("has:no-arglist")
    if "array-arg" in ref.features:
        tags.add("has:array-arg")
    if "kwarg-list" in ref.features:
        tags.add("has:list")
    if "regref-arg" in ref.features:
        tags.add("has:regref")
    params = sorted(P.parameters)
    base = digest(P)
    del Rec.pairs[:]
    instances = []
    inst_digests = []
    shared_arrays = {}
    caller_digest = lambda: json.dumps({repr(k_): v_.tolist() for k_, v_ in shared_arrays.items()})
    hist = []
    n = rng.randint(5, 40)
    witness = {"text": text, "history": hist}
    for step in range(n):
        choices = ["dumps", "to_DiGraph", "reads", "reads", "dumps"]
        if params:
            choices += ["call"] * 3
        if instances:
            choices += ["mutate-instance"] * 3 + ["match_template"] * 2 + ["dumps-instance", "graph-instance"]
        op = rng.choice(choices)
        hist.append(op)
        try:
            if op == "dumps":
                blackbird.dumps(P)
            elif op == "to_DiGraph":
                to_DiGraph(P)
            elif op == "reads":
                reads(P)
            elif op == "call":
                vals = {}
                for p_ in params:
                    vals[p_] = rng.choice([-1, 1]) * round(rng.uniform(0.3, 3), 3)
                # whole-array parameters (names X_i_j) may also be given as one 2-D array object, reused between calls
                import re as _re

                groups = {}
                for p_ in params:
                    m_ = _re.fullmatch(r"(\w+?)_(\d+)_(\d+)", p_)
                    if m_:
                        groups.setdefault(m_.group(1), []).append((int(m_.group(2)), int(m_.group(3))))
                for gname, idxs in groups.items():
                    r_, c_ = max(i for i, _ in idxs) + 1, max(j for _, j in idxs) + 1
                    if len(idxs) == r_ * c_ and gname not in params and rng.random() < 0.7:
                        arr = shared_arrays.setdefault((gname, r_, c_), np.arange(1, r_ * c_ + 1, dtype=float).reshape(r_, c_) / 4)
                        for (i, j) in idxs:
                            vals.pop("%s_%d_%d" % (gname, i, j), None)
                        vals[gname] = arr if rng.random() < 0.7 else arr.tolist()
                        tags.add("call:array-object")
                # whole-array parameters are given element-wise (name_i_j), which __call__ accepts as plain names
                inst = P(**vals)
                ids_t = content.alias_ids(P)
                ids_i = content.alias_ids(inst)
                shared = set(ids_t) & set(ids_i)
                if shared:
                    return ctx.violation("instance-aliases-template", "an instance shares a %s object with its template" % ids_t[next(iter(shared))], witness)
                for j, other in enumerate(instances):
                    sh = set(content.alias_ids(other)) & set(ids_i)
                    if sh:
                        return ctx.violation("instances-alias-each-other", "two instances share a mutable object", witness)
                instances.append(inst)
                inst_digests.append(digest(inst))
                for arr_ in shared_arrays.values():
                    for v_ in inst.variables.values():
                        if isinstance(v_, np.ndarray) and np.shares_memory(v_, arr_):
                            return ctx.violation("instance-shares-memory-with-caller-array", "a variable of an instance is a view of the array object passed as the parameter value", witness)
            elif op == "match_template":
                k = rng.randrange(len(instances))
                try:
                    with common.time_limit(4):
                        match_template(P, instances[k])
                except common.Timeout:
                    ctx.observe("match_template call stopped after 4 s (not a verdict)")
                except Exception as e:
                    ctx.observe("match_template raised " + type(e).__name__)
                d = digest(instances[k])
                if d != inst_digests[k]:
                    return ctx.violation("match_template-changes-program", "match_template changed the program it was matched against", witness)
            elif op == "dumps-instance":
                k = rng.randrange(len(instances))
                blackbird.dumps(instances[k])
            elif op == "graph-instance":
                k = rng.randrange(len(instances))
                Gk = to_DiGraph(instances[k])
                if digest(instances[k]) != inst_digests[k]:
                    return ctx.violation("to_DiGraph-changes-program", "to_DiGraph changed the instance it converted", witness)
                # the graph of an instance describes the instance, not the template it came from
                for i_, o_ in enumerate(instances[k].operations):
                    nd = Gk.nodes[i_] if i_ in Gk.nodes else None
                    if nd is None or nd.get("name") != o_["op"] or tuple(nd.get("modes", ())) != tuple(o_["modes"]) or \
                            json.dumps([content.jsonable(a) for a in (nd.get("args") or [])]) != json.dumps([content.jsonable(a) for a in o_.get("args", [])]):
                        return ctx.violation("graph-of-instance-is-stale", "node %d of an instance's graph does not carry the instance's operation (%r vs %r)" % (i_, nd, o_), witness)
            elif op == "mutate-instance":
                k = rng.randrange(len(instances))
                label = mutate(rng, instances[k])
                hist[-1] = "mutate-instance:" + label
                inst_digests[k] = digest(instances[k])
                for j, other in enumerate(instances):
                    if j != k and digest(other) != inst_digests[j]:
                        return ctx.violation("mutation-leaks-to-sibling:" + label, "mutating one instance (%s) changed another instance" % label, witness)
        except Exception as e:
            ctx.observe("%s raised %s" % (op.split(":")[0], type(e).__name__))
        now = digest(P)
        if now != base:
            key = "program-changed-by:" + op.split(":")[0]
            return ctx.violation(key, "after %r the program's serialisation/content differs from before the history: %s" % (op, _first_difference(base, now)), witness)
    for (name, changed, b, a) in Rec.pairs:
        ctx.hook(name)
        if changed:
            return ctx.violation("entry-point-changes-argument:" + name, "%s changed a program argument: %s" % (name, _first_difference(b, a)), witness)
    kinds = {h.split(":")[0] for h in hist}
    for k in kinds:
        tags.add("op:" + {"dumps-instance": "dumps", "graph-instance": "to_DiGraph"}.get(k, k))
    nt = len(kinds & {"dumps", "to_DiGraph", "reads", "call", "match_template"}) >= 3 and ("mutate-instance" in kinds or ("to_DiGraph" in kinds and "has:no-arglist" in tags))
    ctx.case(text + repr(hist), nt, tags=sorted(tags))
    ctx.sample({"script": text, "history": list(hist)}, limit=1)


def _first_difference(a, b):
    i = 0
    while i < min(len(a), len(b)) and a[i] == b[i]:
        i += 1
    return "...%s | vs | ...%s" % (a[max(0, i - 60) : i + 80], b[max(0, i - 60) : i + 80])


def run(ctx):
    g = common.grammar()
    undo = install_hooks()
    if ctx.worker == 0:
        for j, e in enumerate(common.corpus(ID)):
            for rep in range(6):
                check_case(ctx, e["text"], "corpus%d/%d" % (j, rep))
    n = ctx.share(BUDGET[ctx.tier])
    for i in range(n):
        rng = ctx.rng(i)
        try:
            text, info = gen.script(rng, g, n_stmts=(2, 9), **options_for(rng))
        except RuntimeError:
            ctx.out_of_domain("generator gave up")
            continue
        c_ = rng.random()
        if c_ < 0.12:
            from . import c04

            text, _, _ = c04.add_whole_array(rng, text, g)
        elif c_ < 0.2:
            # registers inside a list-valued keyword argument (the loader leaves them symbolic)
            text = text.rstrip("\n") + "\nGate(0.3, weights=[q0, 0.5, 2*q1], k=q2) | 2\nVac | 0\n"
        check_case(ctx, text, i)
    undo()


def replay(w):
    class C:
        res = None
        seed, pid, worker = 0, "C13", 0

        def rng(self, *k):
            import random

            return random.Random("replay/" + "/".join(str(x) for x in k))

        def out_of_domain(self, r):
            pass

        def case(self, *a, **k):
            pass

        def sample(self, *a, **k):
            pass

        def observe(self, *a, **k):
            pass

        def hook(self, *a, **k):
            pass

        def violation(self, key, summary, witness):
            self.res = "%s: %s" % (key, summary)

    c = C()
    undo = install_hooks()
    for rep in range(30):
        check_case(c, w["text"], "r%d" % rep)
        if c.res:
            break
    undo()
    return c.res
