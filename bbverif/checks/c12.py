"""C12 - each load is independent of every earlier load in the process.

Offline checker over recorded call histories: the *pristine* outcome of every
pool script is computed once in a forked child of a process that has imported
``blackbird`` but loaded nothing; then random histories of load/loads calls are
executed in one interpreter and every call's outcome is compared with the
pristine one.  State probes record the size of the module tables at each parse
entry; alias graphs of all programs of a history must be disjoint.
"""
import json
import os
import pickle
import re
import shutil
import tempfile

from .. import common, content, gen, monitor
from . import c11

ID = "C12"
LEVEL = "exploration"
TECHNIQUE = "runtime offline checker over recorded load histories against pristine outcomes from forked history-free children; state probes on the module tables and on process-wide interpreter/library settings before and after every load; alias-graph disjointness"
RULE = ("a pool per worker: hand-written scripts reusing the identifiers alpha, m, A, r, p0 (valid, templates, tdm, failing at syntax / undefined "
        "name after declarations / type error / inside the 2nd loop iteration / inside an include / missing include / call site), generated valid "
        "and fault-injected scripts, and probe scripts whose metadata options mention the identifiers the others define; histories are random "
        "sequences of 2-30 pool members run in one interpreter; a call is non-trivial when an earlier call of the history failed or defined the "
        "names it mentions; distinct by SHA-1 of (predecessor, script)"
        '; pool members with (almost) equal measured-register expressions'
        '; pool members with digit strings beyond the interpreter conversion limit; process-wide settings compared around every load')
BUDGET = {"quick": 1600, "thorough": 24000}     # histories
MIN_NONTRIVIAL = {"quick": 2000, "thorough": 20000}
REQUIRED_FUNCTIONS = ["listener.py:parse", "listener.py:BlackbirdListener.enterProgram", "listener.py:BlackbirdListener.exitProgram", "__init__.py:load", "__init__.py:loads"]
FUNCTIONS = REQUIRED_FUNCTIONS
REQUIRED_HOOKS = ["parse-entry", "process-settings-compared"]
REQUIRED_TAGS = ["after:syntax-failure", "after:undefined-name-failure", "after:type-failure", "after:loop-failure", "after:include-failure", "after:other-failure",
                 "after:success", "probe", "kind:template", "kind:tdm", "kind:include", "kind:regref"]
ASSUMPTIONS = ["a forked child of a process that imported blackbird and loaded nothing is a pristine process (same hash seed)",
               "exception messages are compared after normalising the display order of set literals"]

H = "name %s\nversion 1.0\n"
STATIC = [
    ("valid", H % "a1" + "float alpha = 0.3\nint m = 2\nfloat array A =\n    1, 2\n    3, 4\nSgate(alpha, A[1]) | m\nVac | 0\n"),
    ("valid", H % "a2" + "complex alpha = 1+2j\nstr r = \"x\"\nG(alpha, r) | 0\nfor int m in 0:3\n    H(m) | m\n"),
    ("template", H % "t1" + "Sgate({r}, {alpha}) | 0\nDgate(-{r}) | 1\nfloat array A =\n    {p0}, 1\nG(A) | 2\n"),
    ("template", H % "t2" + "float alpha = {m}\nG(alpha*2, k=[{r}, 1]) | 0\n"),
    # symbolic values whose printed form depends on how SymPy is configured at the time of the load
    ("template", H % "t3" + "float phi = 2*({a}+{b})\ncomplex z = ({a}+1)*({b}-1)\nRgate(phi) | 0\nZgate(3*({a}-{b}), k=[2*({a}+1), z]) | 1\n"),
    ("template", H % "t4" + "float w = ({r}+1)**2\nG(w, {r}*({r}+2), 2**({alpha}+1)) | 0\nH(-({r}-{alpha})/2) | 1\n"),
    ("tdm", H % "d1" + "type tdm (temporal_modes=3)\nfloat array p0 =\n    1, 2, 3\nint array p1 =\n    4, 5, 6\nfloat alpha = 0.5\nSgate(p0, alpha) | 0\nG(k=p1) | 1\n"),
    ("fail-syntax", H % "f1" + "float alpha = 0.3\nG(alpha | 0\n"),
    ("fail-syntax", "name f2\nfloat alpha = 1\n"),
    ("fail-undefined", H % "f3" + "float alpha = 0.3\nint m = 1\nfloat array A =\n    1, 2\nG(zz) | 0\n"),
    ("fail-undefined", H % "f4" + "str r = \"abc\"\nbool p0 = True\nG | undefined_mode\n"),
    ("fail-type", H % "f5" + "float alpha = 0.3\nint m = 1+2j\n"),
    ("fail-type", H % "f6" + "int m = 7\nG | 1.5\n"),
    ("fail-loop", H % "f7" + "float alpha = 0.25\nfloat array A =\n    1, 2\nfor int m in [0, 1, 2]\n    G(alpha) | m\n    H(A[m]) | 0\n"),
    ("fail-loop", H % "f8" + "int r = 3\nfor int m in [0, 1]\n    G | m\n    H | m/1\n"),
    ("fail-template", H % "f9" + "G({r}, {alpha}) | 0\nfloat array A =\n    {p0}, 2\nH(nope) | 1\n"),
    ("fail-tdm", H % "f10" + "type tdm (temporal_modes=2)\nfloat array p0 =\n    1, 2\nG(p0) | 0\nH(missing) | 1\n"),
    ("fail-other", H % "f11" + "float alpha = 0.3\nint m = 5\nfloat array A =\n    1, 2\nG(A[5]) | 0\n"),
    ("fail-other", H % "f12" + "float alpha = 1\nstr r = \"s\"\nG(alpha[0]) | 0\n"),
    ("fail-other", H % "f13" + "int m = 3\nfloat array A =\n    1, 2\nfor int r in 0:5\n    G(A[r]) | r\n"),
    ("fail-other", H % "f14" + "float array p0 =\n    1, 2\nfloat alpha = 2\nfloat array A[2] =\n    {A}\n"),
    ("valid", H % "b1" + "float array A =\n    " + ", ".join(str(i + 0.5) for i in range(40)) + "\nG(A[7], A[39]) | 0\n"),
    ("valid", H % "b2" + "float array A =\n    " + ", ".join(str(100 + i) for i in range(40)) + "\nG(A[7], A[39]) | 0\n"),
    ("valid", H % "b3" + "float array m =\n    " + ", ".join(str(-i) for i in range(40)) + "\nG(m[7], m[0]) | 1\n"),
    ("fail-undefined", H % "b4" + "float array A =\n    " + ", ".join(str(7 * i) for i in range(40)) + "\nG(A[7]) | 0\nH(zz) | 1\n"),
    # measured-register arguments: the same (and almost the same) expressions in several scripts, so that a transform
    # object or a compiled function kept from an earlier load would be handed to a later one
    ("regref", H % "g1" + "MeasureX | 0\nMeasureX | 1\nG(q0*0.3, k=q0) | 2\nH(q0*q1 - 2) | 3\n"),
    ("regref", H % "g2" + "MeasureX | 0\nMeasureX | 1\nG(q0*0.30000000000000004) | 2\nH(q0*q1 - 2, q0) | 3\nK(k=[1, 2], l=q1/2) | 4\n"),
    ("regref", H % "g3" + "float alpha = 0.3\nMeasureP | 0\nfor int m in 1:3\n    G(q0*alpha, q0*2 + m) | m\nH(q0*0.3) | 5\n"),
    ("template", H % "g4" + "MeasureX | 1\nG({r}, q1/2, k=q1*{alpha}) | 0\nH(q1 / 2) | 2\n"),
    # digit strings beyond what the interpreter converts by default (4300 digits): integer literals, register names,
    # range bounds and declared shapes all go through int(); pristine, each of these loads fails on its own
    ("fail-other", H % "h1" + "float alpha = 0.5\nG(" + "7" * 5000 + ") | 0\n"),
    ("fail-other", H % "h2" + "MeasureX | 0\nZgate(q" + "0" * 4400 + ") | 1\n"),
    ("fail-other", H % "h3" + "int m = 1\nfor int r in 0:1:" + "1" * 4500 + "\n    G | 0\n"),
    ("fail-other", H % "h4" + "float array A[" + "1" * 4400 + ", 1] =\n    1\nG(A) | 0\n"),
    ("valid", H % "h5" + "G(" + "7" * 4000 + ", 1." + "3" * 5000 + ") | 0\n"),
    ("probe", H % "p1" + "target dev (shots=alpha)\nG | 0\n"),
    ("probe", H % "p2" + "target dev (x=m, y=2)\nG | 0\n"),
    ("probe", H % "p3" + "type custom (k=A)\nG | 0\n"),
    ("probe", H % "p4" + "target dev (a=[1, r])\ntype t (b=p0)\nG | 0\n"),
    ("probe", H % "p5" + "G(alpha) | 0\n"),
    ("probe", H % "p6" + "float array B =\n    alpha, 1\nG(B) | m\n"),
    ("probe", H % "p7" + "target dev (v=A[0])\nG | 0\n"),
    ("probe", H % "p8" + "target dev (v=2*alpha + m)\ntype t (w=r)\nVac | 1\n"),
    # operations named like programs that other pool members include: pristine, they are plain operations
    ("probe", H % "p9" + "Sub | [1, 2]\nTpl(r=1, alpha=2) | 4\nVac | 0\n"),
    ("probe", H % "p10" + "Bad | 0\nBad2(1) | [0, 1]\nSub(0.5) | 3\n"),
]


def normalise_message(msg):
    def fix(m):
        items = [x.strip() for x in m.group(1).split(",")]
        return "{" + ", ".join(sorted(items)) + "}"

    return re.sub(r"\{([^{}]*)\}", fix, msg)


def outcome(kind, payload):
    """Outcome of one load attempt as plain data (no program objects)."""
    import blackbird

    try:
        p = blackbird.load(payload) if kind == "file" else blackbird.loads(payload)
    except Exception as e:
        return ("exc", type(e).__name__, normalise_message(str(e))), None
    c = content.content_jsonable(content.program_content(p), with_vars=True)
    try:
        text = blackbird.dumps(p)
    except Exception as e:
        text = "dumps-raises:" + type(e).__name__
    return ("ok", json.dumps(c, sort_keys=True), text, symbolic_forms(p)), p


def symbolic_forms(p):
    """Structure of every symbolic value of the program (arguments, keyword
    values, list elements, variables), not only its numeric signature: the same
    script must give the same expressions, whatever earlier loads did to the
    process (e.g. to SymPy's process-wide settings)."""
    import sympy as sym

    out = []

    def walk(v):
        if isinstance(v, sym.Basic):
            out.append(sym.srepr(v))
        elif isinstance(v, (list, tuple)):
            for x in v:
                walk(x)
        elif hasattr(v, "dtype") and getattr(v, "dtype", None) == object:
            for x in v.flatten():
                walk(x)
        elif hasattr(v, "expr") and hasattr(v, "regrefs"):
            out.append(sym.srepr(sym.sympify(v.expr)) if not isinstance(v.expr, str) else v.expr)

    for op in p.operations:
        for a in op.get("args", []) or []:
            walk(a)
        for k in sorted(op.get("kwargs", {}) or {}):
            walk(op["kwargs"][k])
    for k in sorted(p.variables, key=str):
        walk(p.variables[k])
    return out


def pristine(kind, payload):
    """Outcome in a forked child of this (so far load-free) process."""
    r, w = os.pipe()
    pid = os.fork()
    if pid == 0:
        try:
            os.close(r)
            try:
                mon = __import__("sys").monitoring
                mon.set_events(monitor.Coverage.TOOL, 0)
            except Exception:
                pass
            o, _ = outcome(kind, payload)
            with os.fdopen(w, "wb") as f:
                pickle.dump(o, f)
        finally:
            os._exit(0)
    os.close(w)
    with os.fdopen(r, "rb") as f:
        data = f.read()
    os.waitpid(pid, 0)
    if not data:
        raise RuntimeError("pristine child produced no outcome")
    return pickle.loads(data)


def process_settings():
    """Process-wide settings of the interpreter and of the libraries the package uses: a load - successful or not - must
    leave them as it found them, or later loads (and the rest of the application) behave differently."""
    import decimal
    import locale
    import sys
    import warnings

    import numpy as np

    out = {}
    out["sys.int_max_str_digits"] = sys.get_int_max_str_digits() if hasattr(sys, "get_int_max_str_digits") else None
    out["sys.recursionlimit"] = sys.getrecursionlimit()
    out["sys.tracebacklimit"] = getattr(sys, "tracebacklimit", None)
    out["sys.path"] = tuple(sys.path)
    out["sys.excepthook"] = id(sys.excepthook)
    out["os.cwd"] = os.getcwd()
    out["os.environ"] = hash(tuple(sorted(os.environ.items())))
    out["os.umask"] = None
    out["numpy.errstate"] = tuple(sorted(np.geterr().items()))
    out["numpy.printoptions"] = repr(sorted(np.get_printoptions().items()))
    out["warnings.filters"] = tuple((f[0], str(f[1]), f[2], str(f[3]), f[4]) for f in warnings.filters)
    out["warnings.showwarning"] = id(warnings.showwarning)
    out["decimal.context"] = repr(decimal.getcontext())
    out["locale"] = locale.setlocale(locale.LC_ALL, None)
    try:
        from sympy.core.parameters import global_parameters as gp

        out["sympy.global_parameters"] = (gp.evaluate, gp.distribute, getattr(gp, "exp_is_pow", None))
    except Exception:
        pass
    try:
        import mpmath

        out["mpmath.precision"] = (mpmath.mp.prec, mpmath.mp.dps)
    except Exception:
        pass
    return out


class Probe:
    entries = []


def install_hook():
    def mk(orig):
        def parse(data, *a, **k):
            try:
                from blackbird import auxiliary

                Probe.entries.append((len(auxiliary._VAR), len(auxiliary._PARAMS)))
            except Exception:
                pass
            return orig(data, *a, **k)

        return parse

    return monitor.wrap_function("parse", mk)


def build_pool(ctx, g, root):
    pool = []  # dicts: kind (text|file), payload, cls, names
    for cls, text in STATIC:
        pool.append({"kind": "text", "payload": text, "cls": cls})
    # include-based members
    inc = os.path.join(root, "inc")
    os.makedirs(os.path.join(inc, "lib"), exist_ok=True)
    files = {
        "lib/sub.xbb": H % "Sub" + "float alpha = 0.75\nSgate(alpha) | 3\nBSgate | [3, 8]\n",
        "lib/tpl.xbb": H % "Tpl" + "Dgate({r}, {alpha}) | 5\n",
        "lib/bad.xbb": H % "Bad" + "float alpha = 1\nint m = 2\nG(zz9) | 0\n",
        "lib/bad2.xbb": H % "Bad2" + "include \"bad.xbb\"\nG | 0\n",
        "ok.xbb": H % "mi" + "include \"lib/sub.xbb\"\ninclude \"lib/tpl.xbb\"\n\nSub | [1, 2]\nTpl(r=0.5, alpha=2) | 4\nSub | [6, 7]\n",
        "f_inc.xbb": H % "fi" + "include \"lib/bad.xbb\"\nG | 0\n",
        "f_inc2.xbb": H % "fi2" + "float alpha = 1\ninclude \"lib/bad2.xbb\"\nG | 0\n",
        "f_missing.xbb": H % "fm" + "include \"lib/nothere.xbb\"\nG | 0\n",
        "f_call.xbb": H % "fc" + "include \"lib/sub.xbb\"\nfloat alpha = 2\nint m = 1\nSub | [1, 2, 3]\n",
        "f_call2.xbb": H % "fc2" + "include \"lib/tpl.xbb\"\nfloat r = 2\nTpl(r=1) | 4\n",
        "probe_inc.xbb": H % "pi" + "target dev (s=alpha)\ninclude \"lib/sub.xbb\"\nSub | [1, 2]\n",
    }
    for rel, text in files.items():
        with open(os.path.join(inc, rel), "w") as f:
            f.write(text)
    # a two-level include chain whose inner file is rewritten between loads (two states A/B)
    chain = os.path.join(root, "chain")
    os.makedirs(chain, exist_ok=True)
    with open(os.path.join(chain, "main.xbb"), "w") as f:
        f.write(H % "cm" + "include \"outer.xbb\"\n\nOuter | [1, 2]\nVac | 0\n")
    with open(os.path.join(chain, "main2.xbb"), "w") as f:
        f.write(H % "cm2" + "include \"outer.xbb\"\ninclude \"inner.xbb\"\n\nInner | 4\nOuter | [3, 5]\n")
    with open(os.path.join(chain, "outer.xbb"), "w") as f:
        f.write(H % "Outer" + "include \"inner.xbb\"\n\nBSgate | [0, 1]\nInner | 1\n")
    INNER = {"A": H % "Inner" + "Sgate(0.50) | 7\n", "B": H % "Inner" + "Sgate(0.75) | 7\nRgate(0.125) | 7\n"}
    ctx.extra["_inner_states"] = INNER
    ctx.extra["_inner_path"] = os.path.join(chain, "inner.xbb")
    for rel in ("main.xbb", "main2.xbb"):
        pool.append({"kind": "file", "payload": os.path.join(chain, rel), "cls": "include", "depends_on_inner": True})
    for rel, cls in (("ok.xbb", "include"), ("f_inc.xbb", "fail-include"), ("f_inc2.xbb", "fail-include"), ("f_missing.xbb", "fail-include"),
                     ("f_call.xbb", "fail-include"), ("f_call2.xbb", "fail-include"), ("probe_inc.xbb", "probe")):
        pool.append({"kind": "file", "payload": os.path.join(inc, rel), "cls": cls})
    # generated members: valid scripts, fault-injected scripts and probes naming their variables
    ngen = 10 if ctx.tier == "quick" else 30
    for i in range(ngen):
        rng = ctx.rng("pool", i)
        try:
            text, info = gen.script(rng, g, n_stmts=(2, 6), params=rng.choice([0.0, 0.15]), regrefs=0.0, loops=0.3, arrays=0.6, layout=0.0, tdm=rng.random() < 0.2)
        except RuntimeError:
            continue
        G = info["gen"]
        cls = "template" if info["params"] else ("tdm" if G.o["tdm"] else "valid")
        pool.append({"kind": "text", "payload": text, "cls": cls})
        names = list(G.scalars) + list(G.arrays)
        for nm in names[:3]:
            pool.append({"kind": "text", "payload": H % ("pg%d" % i) + "target dev (o=%s)\nG | 0\n" % nm, "cls": "probe"})
        try:
            fault = rng.choice([f for f in c11.FAULTS if not f.startswith("include:")])
            r = c11.inject(rng, g, fault)
        except RuntimeError:
            r = None
        if r:
            cls = {"undefined": "fail-undefined", "reserved": "fail-undefined", "mode": "fail-type", "complex": "fail-type", "looptype": "fail-loop"}[fault.split(":")[0]]
            pool.append({"kind": "text", "payload": r[0], "cls": cls})
            toks = g.tokenize(r[0])
            if len(toks) > 6:
                k = rng.randrange(3, len(toks))
                pool.append({"kind": "text", "payload": r[0][: toks[k].pos] + " $ " + r[0][toks[k].pos :], "cls": "fail-syntax"})
    return pool


AFTER = {"fail-syntax": "after:syntax-failure", "fail-undefined": "after:undefined-name-failure", "fail-type": "after:type-failure", "fail-loop": "after:loop-failure",
         "fail-include": "after:include-failure", "fail-other": "after:other-failure", "fail-template": "after:undefined-name-failure", "fail-tdm": "after:undefined-name-failure"}


def run(ctx):
    from blackbird import auxiliary

    g = common.grammar()
    root = tempfile.mkdtemp(prefix="bbv-c12-")
    try:
        pool = build_pool(ctx, g, root)
        # pristine outcomes first: this process has loaded nothing yet
        if Probe.entries:
            raise RuntimeError("worker loaded a script before computing pristine outcomes")
        inner_states = ctx.extra.pop("_inner_states")
        inner_path = ctx.extra.pop("_inner_path")

        def set_inner(state):
            with open(inner_path, "w") as f:
                f.write(inner_states[state])

        for m in pool:
            if m.get("depends_on_inner"):
                m["pristine_by_state"] = {}
                for st in ("A", "B"):
                    set_inner(st)
                    m["pristine_by_state"][st] = pristine(m["kind"], m["payload"])
                m["pristine"] = m["pristine_by_state"]["A"]
            else:
                m["pristine"] = pristine(m["kind"], m["payload"])
            ctx.observe("pristine outcome: " + (m["pristine"][0] if m["pristine"][0] == "ok" else m["pristine"][1]))
        inner_state = "A"
        set_inner("A")
        undo = install_hook()
        nh = ctx.share(BUDGET[ctx.tier])
        polluted_entries = 0
        for h in range(nh):
            rng = ctx.rng("history", h)
            n = rng.randint(2, 30)
            # bias: failing or defining scripts followed by probes
            seq = []
            for _ in range(n):
                c = rng.random()
                if seq and c < 0.35:
                    seq.append(rng.choice([m for m in pool if m["cls"] == "probe"]))
                elif c < 0.5:
                    seq.append(rng.choice([m for m in pool if m["kind"] == "file"]))
                else:
                    seq.append(rng.choice(pool))
            progs = []
            prev_cls = None
            failed_before = False
            hist = []
            for m in seq:
                del Probe.entries[:]
                if m.get("depends_on_inner"):
                    if rng.random() < 0.5:
                        inner_state = "B" if inner_state == "A" else "A"
                        set_inner(inner_state)
                        ctx.observe("included file rewritten between loads")
                    m = dict(m, pristine=m["pristine_by_state"][inner_state])
                before = process_settings()
                o, p = outcome(m["kind"], m["payload"])
                after = process_settings()
                ctx.hook("process-settings-compared")
                if after != before:
                    changed = sorted(k for k in after if after[k] != before.get(k))
                    ctx.violation("process-wide-setting-changed:" + ",".join(changed),
                                  "a load of class %s (outcome %s) changed process-wide settings: %s" % (
                                      m["cls"], _short(o), "; ".join("%s: %r -> %r" % (k, before.get(k), after[k]) for k in changed)[:400]),
                                  {"history": [{"kind": m["kind"], "payload": (m["payload"] if m["kind"] == "text" else open(m["payload"]).read())[:3000], "cls": m["cls"]}]})
                ctx.hook("parse-entry", len(Probe.entries))
                if Probe.entries and (Probe.entries[0][0] or Probe.entries[0][1]):
                    polluted_entries += 1
                tags = ["kind:" + m["cls"]]
                if prev_cls is not None:
                    tags.append(AFTER.get(prev_cls, "after:success"))
                if m["cls"] == "probe":
                    tags.append("probe")
                nt = failed_before or (prev_cls is not None and m["cls"] == "probe")
                ctx.case("%s -> %s" % (hist[-1] if hist else "", m["payload"]), nt, tags=tags)
                hist.append(os.path.basename(m["payload"]) if m["kind"] == "file" else m["payload"])
                if o != m["pristine"]:
                    ctx.violation(
                        "outcome-depends-on-history:%s->%s" % (prev_cls, m["cls"]),
                        "call %d of a history: outcome %s differs from the pristine outcome %s; predecessor class %s" % (len(hist), _short(o), _short(m["pristine"]), prev_cls),
                        {"history": [{"kind": x["kind"], "payload": x["payload"] if x["kind"] == "text" else open(x["payload"]).read(), "cls": x["cls"]} for x in seq[: len(hist)]],
                         "note": "file members are shown by content; includes live under a temporary directory"},
                    )
                if p is not None:
                    progs.append(p)
                if o[0] == "exc":
                    failed_before = True
                prev_cls = m["cls"]
            ctx.sample({"history": [x[:80] for x in hist[:6]], "length": len(hist)}, limit=1)
            # alias graphs: programs of different calls, and the module tables
            seen = {}
            tables = content.alias_ids([auxiliary._VAR, auxiliary._PARAMS])
            for i, p in enumerate(progs):
                ids = content.alias_ids(p)
                for k, ty in ids.items():
                    if k in seen and ty != "function":
                        ctx.violation("shared-mutable-state:programs", "programs returned by calls %d and %d of a history share a %s object" % (seen[k], i, ty), {"history": hist})
                        break
                    if k in tables:
                        ctx.violation("shared-mutable-state:module-table", "a returned program shares a %s object with the module-level tables" % ty, {"history": hist})
                        break
                for k in ids:
                    seen.setdefault(k, i)
            ctx.observe("histories")
        ctx.observe("calls that started from non-empty module tables", polluted_entries)
        undo()
    finally:
        shutil.rmtree(root, ignore_errors=True)


def _short(o):
    if o[0] == "exc":
        return "%s(%s)" % (o[1], o[2][:120])
    return "program %s" % o[2][:120].replace("\n", "\\n")


def replay(w):
    """Re-run the recorded history (text members only) and compare each call with a pristine child."""
    hist = w["history"]
    root = tempfile.mkdtemp(prefix="bbv-c12r-")
    try:
        members = []
        for i, m in enumerate(hist):
            if isinstance(m, str):
                return None
            if m["kind"] == "file":
                return "history contains file-based members; re-run the check to reproduce"
            members.append(m)
        pr = [pristine("text", m["payload"]) for m in members]
        for m, p in zip(members, pr):
            o, _ = outcome("text", m["payload"])
            if o != p:
                return "outcome %s differs from pristine %s" % (_short(o), _short(p))
        return None
    finally:
        shutil.rmtree(root, ignore_errors=True)
