"""C03 - expressions evaluate to their arithmetic value under the grammar's precedence.

Reference-model monitor: the reference evaluates the expression *text* with its
own lexer, precedence parser and Python arithmetic carrying error bounds; the
delivered value is read from the loaded program.  A hook on the package's
recursive evaluator records every sub-expression it evaluates, so a divergence
is localised to the innermost sub-expression where real and reference differ.
"""
from .. import common, content, gen, monitor, refsem
from ..refnum import OOD

ID = "C03"
LEVEL = "exploration"
TECHNIQUE = "runtime reference-model monitor with propagated error bounds; hook on the recursive evaluator records sub-expression values for localisation"
RULE = ("random numeric expressions (depth<=8 quick, <=12 thorough) over every literal form, unary chains, operator chains, the 15 "
        "functions, declared scalars and array elements, placed in a positional/keyword/list/initialiser/array-element slot; the "
        "reference decides the domain from the text; non-trivial = two different binary operators nested, or a unary sign next to **; "
        "distinct by SHA-1 of the script text")
BUDGET = {"quick": 24000, "thorough": 400000}
MIN_NONTRIVIAL = {"quick": 2000, "thorough": 20000}
REQUIRED_FUNCTIONS = ["auxiliary.py:_expression", "auxiliary.py:_number", "auxiliary.py:_func"]
FUNCTIONS = REQUIRED_FUNCTIONS
REQUIRED_HOOKS = ["_expression"]
REQUIRED_TAGS = (["expr:brackets", "expr:sign", "expr:power", "expr:mul", "expr:add", "expr:variable", "expr:arrayidx",
                  "lit:INT", "lit:FLOAT", "lit:COMPLEX", "lit:PI", "div:by-int", "div:by-other", "int-result"]
                 + ["func:" + f for f in gen.FUNCS])
ASSUMPTIONS = ["reference arithmetic: Python int (exact), math/cmath with first-order error bounds (bbverif/refnum.py)",
               "domain per the quantifier: finite values, functions' real domains (margin 1e-3), int64 range; int**negative int is observed, not judged"]


def nontrivial_shape(ast):
    """two different binary operators nested, or a unary sign next to **"""
    found = [False]

    def strip(e):
        while e[0] == "paren":
            e = e[1]
        return e

    def walk(e):
        e0 = e
        e = strip(e)
        k = e[0]
        if k == "bin":
            for c in (e[2], e[3]):
                cs = strip(c)
                if cs[0] == "bin" and cs[1] != e[1]:
                    found[0] = True
                if e[1] == "**" and cs[0] in ("neg", "pos"):
                    found[0] = True
                walk(c)
        elif k in ("neg", "pos"):
            cs = strip(e[1])
            if cs[0] == "bin" and cs[1] == "**":
                found[0] = True
            walk(e[1])
        elif k == "func":
            walk(e[2])
        elif k == "idx":
            walk(e[2])

    walk(ast)
    return found[0]


class Trace:
    def __init__(self):
        self.items = []
        self.n = 0


TRACE = Trace()


def install_hook():
    def mk(orig):
        def _expression(expr):
            TRACE.n += 1
            r = orig(expr)
            try:
                if len(TRACE.items) < 400:
                    TRACE.items.append((expr.start.start, expr.stop.stop, r))
            except Exception:
                pass
            return r

        return _expression

    return monitor.wrap_function("_expression", mk)


SLOTS = ("arg", "kw", "list", "init", "elem")


def build(rng, g, depth):
    G = gen.Gen(rng, g, layout=0.5, arrays=1.0, hostile_names=0.2, big=rng.random() < 0.08)
    lines = ["name " + G.ident(), "version 1.0"]
    for _ in range(rng.choice([0, 1, 2, 3, 4])):
        t = G.decl_scalar(vartype=rng.choice(["int", "float", "complex", "int", "float"]), depth=1)
        if t:
            lines.append(t)
    for _ in range(rng.choice([0, 1, 1, 2])):
        t = G.decl_array()
        if t:
            lines.extend(t.split("\n"))
    if G.arrays and rng.random() < 0.15:
        # an array declared again (same name; same or another size) after it has been indexed
        nm = rng.choice(list(G.arrays))
        vt, rr, cc, hp = G.arrays[nm]
        lines.append("G(%s[%d]) | 1" % (nm, rng.randrange(rr * cc)))
        t = G.decl_array(vartype=vt, rows=rr if rng.random() < 0.7 else None, cols=cc if rng.random() < 0.7 else None, name=nm, param_p=0.0)
        if t:
            lines.extend(t.split("\n"))
    if G.scalars and rng.random() < 0.12:
        # a template parameter that shares its name with a declared variable, used before the declaration
        nm = rng.choice(list(G.scalars))
        lines.insert(2, "Pre({%s}, 0.5) | 9" % nm)
    e = G.expr(depth, "ifc")
    slot = rng.choice(SLOTS)
    if slot == "arg":
        lines.append("G(%s) | 0" % e)
    elif slot == "kw":
        lines.append("G(k=%s) | 0" % e)
    elif slot == "list":
        lines.append("G(k=[1, %s, 2]) | 0" % e)
    elif slot == "init":
        lines.append("complex zz = %s" % e)
        lines.append("G(zz) | 0")
    else:
        lines.append("complex array ZZ =")
        lines.append("    1, %s" % e)
        lines.append("G(ZZ[1]) | 0")
    return "\n".join(lines) + "\n", e, slot


def localise(text, g, env_ref):
    """First recorded sub-expression (innermost first) whose delivered value
    differs from the reference value of its text."""
    for (a, b, val) in TRACE.items:
        sub = text[a : b + 1]
        try:
            toks = g.tokenize(sub)
            p = refsem._Parser(toks)
            ast = p.expression()
            if p.peek() != "EOF":
                continue
            rv = env_ref.ev(ast)
        except (OOD, refsem.RefSyntax, refsem.IllFormed, ValueError):
            continue
        d = []
        try:
            content.diff_ref_value(rv, val, "sub", d, "C03")
        except Exception:
            continue
        if d:
            return "innermost diverging sub-expression %r: reference %r, delivered %s" % (sub, rv, content.show(val))
    return "no single sub-expression diverges (composition differs)"


def check_text(ctx, text, expr_text=None, slot="?", tags=()):
    g = common.grammar()
    kind = common.classify(text)
    if kind[0] == "ood":
        ctx.out_of_domain(kind[1].split(" (")[0])
        return
    if kind[0] in ("nosentence", "ill"):
        ctx.out_of_domain("generator produced an invalid script (%s)" % kind[0])
        return
    if kind[0] == "refbug":
        ctx.violation("machinery:refbug", kind[1], {"text": text})
        return
    ref = kind[1]
    nt = False
    if expr_text is not None:
        try:
            p = refsem._Parser(g.tokenize(expr_text))
            nt = nontrivial_shape(p.expression())
        except (refsem.RefSyntax, ValueError):
            pass
    feats = [f for f in ref.features if f.startswith(("expr:", "lit:", "func:", "div:"))]
    last = ref.ops[-1]
    v = (last.args[0] if last.args else last.kwargs[0][1])
    if isinstance(v, list):
        v = v[1]
    if getattr(v, "k", None) == "i":
        feats.append("int-result")
    ctx.case(text, nt, tags=feats + ["slot:" + slot] + list(tags))
    ctx.sample({"expression": expr_text, "slot": slot, "reference_value": repr(v)}, limit=2)
    del TRACE.items[:]
    before = TRACE.n
    prog, exc = common.real_loads(text)
    ctx.hook("_expression", TRACE.n - before)
    if exc is not None:
        ctx.violation("raises:" + common.exc_key(exc), "loads() raised %s on in-domain expression %r" % (common.exc_text(exc), expr_text), {"text": text, "expr": expr_text, "slot": slot})
        return
    diffs = content.diff_ref(ref, content.program_content(prog), variables=True, seed="C03")
    if diffs:
        # re-create the reference environment for localisation
        it = refsem.Interp(g)
        it.in_metadata = False
        it.env = dict(ref.vars)
        where = localise(text, g, it)
        ctx.violation(common.diff_key(diffs), "%r: %s; %s" % (expr_text, common.diff_text(diffs, 2), where), {"text": text, "expr": expr_text, "slot": slot})


def run(ctx):
    g = common.grammar()
    undo = install_hook()
    ctx.extra["hook_bindings"] = undo.count
    if ctx.worker == 0:
        for e in common.corpus(ID):
            check_text(ctx, e["text"], e.get("expr"), e.get("slot", "corpus"), tags=["corpus"])
    n = ctx.share(BUDGET[ctx.tier])
    maxd = 8 if ctx.tier == "quick" else 12
    for i in range(n):
        rng = ctx.rng(i)
        depth = rng.choice([1, 2, 2, 3, 3, 4, 4, 5, 6, maxd])
        try:
            text, e, slot = build(rng, g, depth)
        except (RuntimeError, RecursionError):
            ctx.out_of_domain("generator gave up")
            continue
        check_text(ctx, text, e, slot, tags=["parameter-named-like-a-variable"] if "\nPre({" in text else [])
    undo()


def replay(w):
    class C:
        res = None
        extra = {}

        def out_of_domain(self, r):
            pass

        def case(self, *a, **k):
            pass

        def sample(self, *a, **k):
            pass

        def hook(self, *a, **k):
            pass

        def violation(self, key, summary, witness):
            self.res = "%s: %s" % (key, summary)

    c = C()
    undo = install_hook()
    check_text(c, w["text"], w.get("expr"), w.get("slot", "?"))
    undo()
    return c.res
