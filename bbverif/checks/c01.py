"""C01 - serialise-then-parse round trip preserves every parsed program, in every generation.

Metamorphic monitor on the real code: P1 = loads(s); T_n = dumps(P_n);
P_{n+1} = loads(T_n).  Every T_n must be a sentence of the grammar (decided by
the independent recogniser, so a reload failure is attributed to the
serialiser), and content(P_{n+1}) must equal content(P_n) and content(P_1):
numbers/bools/strings/lists/arrays exactly, symbolic and register arguments
numerically with equal symbol sets.
"""
import numpy as np
import sympy as sym

from .. import common, content, gen

ID = "C01"
LEVEL = "exploration"
TECHNIQUE = "runtime metamorphic monitor: dumps/loads generations on generated scripts, content compared exactly (numbers) and numerically (symbolic), output checked against the grammar-derived recogniser"
RULE = ("random valid scripts over the whole language (typed variables, arrays, arithmetic producing NumPy scalars, keyword and list "
        "arguments, loops with computed modes, template parameters with adversarial names, register expressions, target/type options, "
        "tdm p-arrays), valid and in domain per the reference interpreter; 3 (quick) / 6 (thorough) generations each; non-trivial = at "
        "least 3 operations and one of {list kwarg, parameter in kwarg/list, several parameters, register expression, array argument, "
        "options, computed modes, tdm}; distinct by SHA-1 of the text"
        '; every tenth valid script once more with statements in which a parameter or register cancels identically (cancelling lane: weak comparison for generation 1 -> 2, strict from generation 2 on)')
BUDGET = {"quick": 3500, "thorough": 50000}
MIN_NONTRIVIAL = {"quick": 300, "thorough": 3000}
REQUIRED_FUNCTIONS = ["program.py:BlackbirdProgram.serialize", "program.py:numpy_to_blackbird", "program.py:_format_value"]
FUNCTIONS = REQUIRED_FUNCTIONS + ["listener.py:BlackbirdListener.exitStatement", "auxiliary.py:_get_arguments"]
REQUIRED_TAGS = ["kwarg-list", "param-arg", "regref-arg", "array-arg", "target-options", "tdm", "loop", "param-in-list", "param-multi",
                 "twin-arrays:reshape", "twin-arrays:zeros", "twin-arrays:identical", "twin-arrays:int-vs-float", "cancelling"]
ASSUMPTIONS = ["validity and domain of the input script are decided by the reference interpreter (finite values, no cancelling parameter/register, no function of a symbol)",
               "symbolic values are compared numerically at generic points with relative tolerance 1e-9 (float printing precision)"]
GENERATIONS = {"quick": 3, "thorough": 6}
HARD = ("kwarg-list", "param-in-list", "param-multi", "regref-arg", "array-arg", "target-options", "type-options", "tdm", "kwargs")


def options_for(rng):
    tdm = rng.random() < 0.15
    return dict(
        params=rng.choice([0.0, 0.1, 0.2]),
        regrefs=rng.choice([0.0, 0.1, 0.2]),
        loops=rng.choice([0.0, 0.3]),
        arrays=rng.choice([0.3, 0.7]),
        kwlists=rng.choice([0.2, 0.5]),
        options=0.6,
        tdm=tdm,
        layout=rng.choice([0.0, 0.2]),
        hostile_names=rng.choice([0.3, 0.8]),
        array_params=rng.choice([0.0, 0.0, 0.15]),
        complex_coeff=rng.choice([0.0, 0.0, 0.1]),
        funcs=rng.random() < 0.5,
    )


def _walk_values(c):
    for o in c["ops"]:
        for a in (o["args"] or []):
            yield a
        for _, a in (o["kwargs"] or []):
            yield a
    for v in c["variables"].values():
        yield v


def has_symbolic_array(c):
    for v in _walk_values(c):
        if isinstance(v, np.ndarray) and v.dtype == object and any(isinstance(x, sym.Expr) for x in v.flatten()):
            return True
    return False


def has_imaginary_symbolic(c):
    st = list(_walk_values(c))
    while st:
        v = st.pop()
        if isinstance(v, (list, tuple)):
            st.extend(v)
        e = v if isinstance(v, sym.Expr) else getattr(v, "expr", None)
        if isinstance(e, sym.Expr) and e.has(sym.I):
            return True
    return False


def symbols_in_operations(c):
    names = set()
    st = []
    for o in c["ops"]:
        st.extend(o["args"] or [])
        st.extend(a for _, a in (o["kwargs"] or []))
    while st:
        v = st.pop()
        if isinstance(v, (list, tuple)):
            st.extend(v)
        elif isinstance(v, np.ndarray) and v.dtype == object:
            st.extend(v.flatten().tolist())
        else:
            e = v if isinstance(v, sym.Expr) else getattr(v, "expr", None)
            if isinstance(e, sym.Expr):
                names |= {str(x) for x in e.free_symbols}
    return names


def roundtrip(text, gens, g):
    """Returns None or (key, summary)."""
    import blackbird

    prog, exc = common.real_loads(text)
    if exc is not None:
        return ("load-raises:" + common.exc_key(exc), "loads() raised %s on a valid script" % common.exc_text(exc))
    c1 = content.program_content(prog)
    prev, cprev = prog, c1
    cfg = content.Cfg(numbers="exact", sym_rtol=1e-9, seed="C01")
    for n in range(1, gens + 1):
        try:
            t = blackbird.dumps(prev)
            if n % 2 == 0:
                import io

                buf = io.StringIO()
                blackbird.dump(prev, buf)
                if buf.getvalue() != t:
                    return ("dump-differs-from-dumps", "generation %d: dump() to a file-like object wrote a text different from dumps()" % n)
        except Exception as e:
            if has_symbolic_array(cprev) and isinstance(e, (ValueError, KeyError, TypeError)):
                return ("array-with-parameter-unserialisable", "generation %d: dumps() raised %s for a program holding an array with parameter elements" % (n, common.exc_text(e)))
            return ("dumps-raises:" + common.exc_key(e), "generation %d: dumps() raised %s" % (n, common.exc_text(e)))
        ok, bad, toks = g.is_sentence(t)
        nxt, exc = common.real_loads(t)
        if exc is not None:
            if "name 'I' is not defined" in str(exc) and has_imaginary_symbolic(cprev):
                return ("complex-coefficient-symbolic", "generation %d: a symbolic argument with a complex coefficient is printed with SymPy's imaginary unit I; reload: %s" % (n, common.exc_text(exc)))
            where = ""
            if not ok:
                tk = toks[bad] if bad < len(toks) else None
                where = " (serialised text is not a sentence of the grammar: first bad token %r at line %s)" % ((tk.text, tk.line) if tk else ("EOF", "-"))
            return ("reload-raises:" + common.exc_key(exc), "generation %d: loads(dumps(P)) raised %s%s; text=%r" % (n, common.exc_text(exc), where, t[:400]))
        if not ok:
            return ("not-a-sentence-but-loaded", "generation %d: serialised text is not a sentence of the grammar, yet it loaded" % n)
        cn = content.program_content(nxt)
        d = content.diff_real(cprev, cn, cfg)
        if d and all(x[0] in ("parameters", "is_template") for x in d):
            missing = set(cprev["parameters"]) - set(cn["parameters"])
            extra = set(cn["parameters"]) - set(cprev["parameters"])
            if missing and not extra and not (missing & symbols_in_operations(cprev)):
                return ("parameter-only-in-variables", "generation %d: free parameter(s) %s occur only in variable declarations, which the serialiser does not emit; the reloaded program no longer reports them" % (n, sorted(missing)))
        if d:
            return (common.diff_key(d) + "@gen", "generation %d vs %d: %s; text=%r" % (n, n + 1, common.diff_text(d), t[:400]))
        d = content.diff_real(c1, cn, cfg)
        if d:
            return (common.diff_key(d) + "@first", "generation 1 vs %d: %s" % (n + 1, common.diff_text(d)))
        prev, cprev = nxt, cn
    return None


def check_text(ctx, text, tags=()):
    g = common.grammar()
    kind = common.classify(text)
    if kind[0] == "ood":
        ctx.out_of_domain(kind[1].split(" (")[0])
        return
    if kind[0] in ("nosentence", "ill"):
        ctx.out_of_domain("generator produced an invalid script (%s)" % kind[0])
        return
    if kind[0] == "refbug":
        ctx.violation("machinery:refbug", kind[1], {"text": text})
        return
    ref = kind[1]
    feats = ref.features
    nt = len(ref.ops) >= 3 and any(f in feats for f in HARD)
    ctx.case(text, nt, tags=[f for f in feats if not f.startswith(("lit:", "func:", "expr:", "div:"))] + list(tags))
    ctx.sample({"script": text}, limit=1)
    res = roundtrip(text, GENERATIONS.get(ctx.tier, 3), g)
    ctx.observe("generations", GENERATIONS.get(ctx.tier, 3))
    if res:
        ctx.violation(res[0], res[1], {"text": text})


CANCEL_NAMES = ["a", "b", "r", "rr", "phi", "E", "I", "S", "alpha", "p0", "x1", "theta", "e", "N", "zeta_2"]


def add_cancelling(rng, text, grm):
    """Append statements in which a template parameter or a measured register cancels identically, with real and
    complex coefficients, in positional, keyword and list positions.  The reference puts such scripts outside the
    domain of the strict comparison (the implementation still *reports* a parameter that cancelled); they are judged
    by roundtrip_cancelling instead."""
    g = gen.Gen(rng, grm, complex=True)
    words = set(__import__("re").findall(r"[A-Za-z_][A-Za-z_0-9]*", text))
    names = [n for n in CANCEL_NAMES if n not in words]
    rng.shuffle(names)
    lines, forms = [], set()

    def coef():
        return g.num_lit(rng.choice(["i", "f", "c", "c", "fc"]))

    def one():
        k = rng.random()
        if k < 0.75:
            x, y = "{%s}" % names[0], "{%s}" % names[1 % len(names)]
            kind_ = "param"
        else:
            x, y = "q%d" % rng.choice([0, 1, 7, 12]), "q%d" % rng.choice([2, 3, 40])
            kind_ = "reg"
        c, d = coef(), coef()
        form = rng.choice(["x-x", "x/x", "c*x/x", "(x+c)-x", "x*0", "x**0", "c+x-x", "c*(x-x)+d", "xy/yx", "x/x*y", "c*x-c*x+d", "-(x/x)*c", "(x-x)*y+c"])
        forms.add(kind_ + ":" + form)
        return {
            "x-x": "%s - %s" % (x, x), "x/x": "%s / %s" % (x, x), "c*x/x": "%s * %s / %s" % (c, x, x),
            "(x+c)-x": "(%s + %s) - %s" % (x, c, x), "x*0": "%s * 0" % x, "x**0": "%s ** 0" % x,
            "c+x-x": "%s + %s - %s" % (c, x, x), "c*(x-x)+d": "%s * (%s - %s) + %s" % (c, x, x, d),
            "xy/yx": "(%s * %s) / (%s * %s)" % (x, y, y, x), "x/x*y": "%s / %s * %s" % (x, x, y),
            "c*x-c*x+d": "%s * %s - %s * %s + %s" % (c, x, c, x, d), "-(x/x)*c": "-(%s / %s) * %s" % (x, x, c),
            "(x-x)*y+c": "(%s - %s) * %s + %s" % (x, x, y, c),
        }[form]

    if len(names) < 2:
        return None, []
    for _ in range(rng.choice([1, 2, 3])):
        pos = [one() for _ in range(rng.choice([0, 1, 2]))]
        kws = []
        if rng.random() < 0.6:
            kws.append("kc=%s" % one())
        if rng.random() < 0.4:
            kws.append("lc=[%s]" % ", ".join(one() if rng.random() < 0.7 else coef() for _ in range(rng.choice([1, 2, 3]))))
        if not pos and not kws:
            pos = [one()]
        lines.append("Cancel(%s) | %s" % (", ".join(pos + kws), rng.choice(["0", "[1, 2]", "3, 0"])))
        rng.shuffle(names)
    return text.rstrip("\n") + "\n" + "\n".join(lines) + "\n", sorted("cancel:" + f for f in forms)


def roundtrip_cancelling(text, gens, g):
    """Round trip of a script in which parameters/registers cancel identically.  Demanded: serialising and loading
    again succeed; name, version, target, type, operation sequence, modes, argument structure are the same; every
    value is numerically the same (a constant SymPy expression and the number it denotes count as equal); no
    parameter appears that was not there; and from the reloaded program on, the strict round trip holds (its text is
    a script the implementation itself wrote, without cancelling symbols).  Not demanded: that a parameter which
    cancelled everywhere is still reported."""
    import blackbird

    prog, exc = common.real_loads(text)
    if exc is not None:
        return ("cancelling:load-raises:" + common.exc_key(exc), "loads() raised %s on a valid script with cancelling symbols" % common.exc_text(exc))
    c1 = content.program_content(prog)
    try:
        t = blackbird.dumps(prog)
    except Exception as e:
        if has_symbolic_array(c1) and isinstance(e, (ValueError, KeyError, TypeError)):
            return ("array-with-parameter-unserialisable", "dumps() raised %s for a program holding an array with parameter elements" % common.exc_text(e))
        return ("cancelling:dumps-raises:" + common.exc_key(e), "dumps() raised %s" % common.exc_text(e))
    ok, bad, toks = g.is_sentence(t)
    nxt, exc = common.real_loads(t)
    if exc is not None:
        return ("cancelling:reload-raises:" + common.exc_key(exc), "loads(dumps(P)) raised %s%s; text=%r" % (common.exc_text(exc), "" if ok else " (serialised text is not a sentence of the grammar)", t[:400]))
    if not ok:
        return ("cancelling:not-a-sentence-but-loaded", "serialised text is not a sentence of the grammar, yet it loaded")
    c2 = content.program_content(nxt)
    d = content.diff_real(c1, c2, content.Cfg(numbers="exact", sym_rtol=1e-9, seed="C01c", mixed_sym=True), skip=("parameters",))
    if d:
        return ("cancelling:" + common.diff_key(d), "generation 1 vs 2: %s; text=%r" % (common.diff_text(d), t[:400]))
    extra = set(c2["parameters"]) - set(c1["parameters"])
    if extra:
        return ("cancelling:new-parameters", "the reloaded program reports parameters %s the original did not" % sorted(extra))
    lost = (set(c1["parameters"]) - set(c2["parameters"])) & symbols_in_operations(c1)
    if lost:
        return ("cancelling:lost-parameters", "parameters %s occur in the operations' values but are not reported after the round trip" % sorted(lost))
    res = roundtrip(t, max(1, gens - 1), g)
    if res:
        return ("cancelling:later:" + res[0], "from the reloaded program on: " + res[1])
    return None


def check_cancelling(ctx, text, tags):
    g = common.grammar()
    kind = common.classify(text)
    if kind[0] == "ok":
        # nothing cancelled after all (e.g. the coefficient made the term vanish otherwise): judge it strictly
        check_text(ctx, text, tags=tags)
        return
    if kind[0] != "ood" or "cancels identically" not in kind[1]:
        ctx.out_of_domain("cancelling lane: %s" % (kind[1].split(" (")[0] if kind[0] == "ood" else kind[0]))
        return
    ctx.case(text, True, tags=list(tags) + ["cancelling"])
    ctx.sample({"script": text, "lane": "cancelling"}, limit=1)
    res = roundtrip_cancelling(text, GENERATIONS.get(ctx.tier, 3), g)
    if res:
        ctx.violation(res[0], res[1], {"text": text, "lane": "cancelling"})


def add_twin_arrays(rng, text):
    """Append arrays that are equal in some sense (same elements in another shape, same zeros in another
    type, identical twins) and pass them to one operation: a serialiser that merges 'equal' arrays shows here."""
    vals = [rng.choice(["1", "2", "0", "3.5", "7", "0.25"]) for _ in range(rng.choice([2, 3, 4, 6]))]
    n = len(vals)
    kind = rng.choice(["reshape", "zeros", "identical", "int-vs-float"])
    vt = rng.choice(["float", "complex"]) if any("." in v for v in vals) else rng.choice(["int", "float"])
    lines = []
    if kind == "reshape":
        lines += ["%s array Tw1 =" % vt, "    " + ", ".join(vals), "%s array Tw2 =" % vt] + ["    " + v for v in vals]
        if n % 2 == 0:
            lines += ["%s array Tw3 =" % vt, "    " + ", ".join(vals[: n // 2]), "    " + ", ".join(vals[n // 2 :])]
    elif kind == "zeros":
        lines += ["int array Tw1 =", "    " + ", ".join(["0"] * n), "float array Tw2 =", "    " + ", ".join(["0"] * n), "complex array Tw3 =", "    " + ", ".join(["0"] * n)]
    elif kind == "identical":
        lines += ["%s array Tw1 =" % vt, "    " + ", ".join(vals), "%s array Tw2 =" % vt, "    " + ", ".join(vals)]
    else:
        iv = [str(rng.randint(0, 9)) for _ in range(n)]
        lines += ["int array Tw1 =", "    " + ", ".join(iv), "float array Tw2 =", "    " + ", ".join(iv)]
    names = ["Tw1", "Tw2"] + (["Tw3"] if any(l.split()[-2:-1] == ["Tw3"] for l in lines) else [])
    rng.shuffle(names)
    lines.append("Twin(%s, k=%s) | [0, 1]" % (", ".join(names), names[0]))
    lines.append("Twin2(%s) | 2" % names[-1])
    return text.rstrip("\n") + "\n" + "\n".join(lines) + "\n", ["twin-arrays:" + kind]


def run(ctx):
    g = common.grammar()
    if ctx.worker == 0:
        for e in common.corpus(ID):
            check_text(ctx, e["text"], tags=["corpus"])
    n = ctx.share(BUDGET[ctx.tier])
    for i in range(n):
        rng = ctx.rng(i)
        try:
            text, info = gen.script(rng, g, n_stmts=(3, 12), **options_for(rng))
        except RuntimeError:
            ctx.out_of_domain("generator gave up")
            continue
        extra = []
        if rng.random() < 0.12:
            text, extra = add_twin_arrays(rng, text)
        check_text(ctx, text, tags=extra)
        if i % 10 == 3 and common.classify(text)[0] == "ok":
            t2, tg = add_cancelling(ctx.rng("cancel/%d" % i), text, g)
            if t2:
                check_cancelling(ctx, t2, tg)
    ctx.observe("uncheckable symbolic comparisons", content.UNCHECKABLE[0])


def replay(w):
    if w.get("lane") == "cancelling":
        res = roundtrip_cancelling(w["text"], 6, common.grammar())
        return None if res is None else "%s: %s" % res
    res = roundtrip(w["text"], 6, common.grammar())
    return None if res is None else "%s: %s" % res
