"""C09 - programs assembled through the API serialise to valid, equivalent scripts.

Monitor: ``dumps(P)`` must not raise, its text must be a sentence of the grammar
(independent recogniser), ``loads(text)`` must succeed, and the reloaded content
must equal P's: numbers/bools/strings/lists exactly (sign of zero, subnormals),
arrays with shape, dtype kind and every element exactly, SymPy expressions
numerically with the same parameter names.
"""
import numpy as np
import sympy as sym

from .. import common, content, gen

ID = "C09"
LEVEL = "exploration"
TECHNIQUE = "runtime metamorphic monitor on API-built programs: dumps -> grammar-derived recogniser -> loads -> exact content comparison"
RULE = ("programs assembled like test_program.py does (BlackbirdProgram with operations/target/type filled in) from Python and 64-bit NumPy "
        "ints/floats/complex, bools, quote-free printable strings, flat lists in keyword position and options, 2-D int64/float64/complex128 "
        "arrays with hostile elements (-0.0, subnormal, 1e+-300, negative parts), real rational SymPy expressions in named parameters, NumPy "
        "integer modes; non-trivial = >=2 operations and >=4 distinct value kinds incl. one of array/list/sympy/NumPy scalar; distinct by SHA-1 of the serialised text"
        '; tdm programs with p-arrays, variables named like hoisted arrays (A0..A3), p-names as arguments and as option strings, variables compared after the reload')
BUDGET = {"quick": 6000, "thorough": 100000}
MIN_NONTRIVIAL = {"quick": 600, "thorough": 6000}
REQUIRED_FUNCTIONS = ["program.py:BlackbirdProgram.serialize", "program.py:numpy_to_blackbird", "program.py:_format_value", "program.py:sympy_to_blackbird"]
FUNCTIONS = REQUIRED_FUNCTIONS
REQUIRED_TAGS = ["kind:np.int64", "kind:np.float64", "kind:np.complex128", "kind:int", "kind:float", "kind:complex", "kind:bool", "kind:str",
                 "kind:list", "kind:array:i", "kind:array:f", "kind:array:c", "kind:sympy", "options", "options-list", "np-int-modes",
                 "neg-zero", "subnormal", "huge", "no-arglist", "type:tdm", "string:name-like", "tdm:variables", "tdm:variable-named-like-hoisted-array", "tdm:option-string-names-a-variable", "tdm:p-array-by-name",
                 "twin-array:same-object", "twin-array:equal-other-dtype", "twin-array:zeros-other-dtype", "twin-array:equal-copy", "twin-array:same-bytes-other-shape",
                 "layout:transpose", "layout:fortran", "layout:flip-rows", "layout:strided"]
ASSUMPTIONS = ["supported values as listed in the property; lists only in keyword position and options (no script can denote a positional list)",
               "names are valid NAME tokens (identifier generator); strings are printable ASCII without double quote"]

HOSTILE_F = [-0.0, 0.0, 5e-324, -5e-324, 2.2250738585072014e-308, 1e300, -1e300, 1e-300, 1.7976931348623157e308, 0.1, -0.1, 1.0, -1.0, 1e-7,
             123456789.125, 1e16, 1e22, 3.141592653589793, 2.5, 1 / 3, 1e-5, 0.5]
HOSTILE_I = [0, 1, -1, 2, 7, -12, 255, 65536, 2 ** 31, -(2 ** 31) - 1, 2 ** 62, -(2 ** 62), 10 ** 15]


class Builder:
    def __init__(self, rng, g):
        self.r = rng
        self.G = gen.Gen(rng, g, hostile_names=0.5)
        self.tags = set()
        self.kinds = set()
        self.syms = []

    def f(self):
        r = self.r
        x = r.choice(HOSTILE_F) if r.random() < 0.5 else r.choice([-1, 1]) * r.uniform(0, 10) * 10 ** r.randint(-8, 8)
        if x == 0 and str(x).startswith("-"):
            self.tags.add("neg-zero")
        if x != 0 and abs(x) < 2.3e-308:
            self.tags.add("subnormal")
        if abs(x) >= 1e299 or (x != 0 and abs(x) <= 1e-299):
            self.tags.add("huge")
        return x

    def i(self):
        r = self.r
        return r.choice(HOSTILE_I) if r.random() < 0.4 else r.randint(-50, 50)

    def c(self):
        return complex(self.f(), self.f())

    def s(self):
        r = self.r
        alphabet = "abcXYZ019 _-+*/=.,:;()[]{}<>!?#$%&@^~|'\\`"
        if r.random() < 0.12:
            # strings that look like names with a meaning elsewhere in the language
            self.tags.add("string:name-like")
            return r.choice(["", "p", "p0", "p1", "p12", "p0x", "q0", "q", "True", "None", "pi", "tdm", "name", "int", "j", "1j", "0", "-1", "1e5"])
        return "".join(r.choice(alphabet) for _ in range(r.choice([0, 1, 3, 6, 12])))

    def scalar(self, allow_sym=False):
        r = self.r
        k = r.choice(["int", "float", "complex", "np.int64", "np.float64", "np.complex128", "bool", "str", "np.bool_"] + (["sympy"] * 2 if allow_sym else []))
        self.tags.add("kind:" + k)
        self.kinds.add(k)
        if k == "int":
            return self.i()
        if k == "float":
            return self.f()
        if k == "complex":
            return self.c()
        if k == "np.int64":
            return np.int64(self.i())
        if k == "np.float64":
            return np.float64(self.f())
        if k == "np.complex128":
            return np.complex128(self.c())
        if k == "bool":
            return r.random() < 0.5
        if k == "np.bool_":
            return np.bool_(r.random() < 0.5)
        if k == "str":
            return self.s()
        return self.sympy_expr()

    def symbol(self):
        r = self.r
        if self.syms and r.random() < 0.6:
            return r.choice(self.syms)
        for _ in range(20):
            n = self.G.ident(fresh=False)
            if not __import__("keyword").iskeyword(n):
                break
        s = sym.Symbol(n)
        if s not in self.syms:
            self.syms.append(s)
        return s

    def sympy_expr(self, depth=None):
        r = self.r
        d = r.choice([0, 1, 2, 2, 3]) if depth is None else depth

        def coeff():
            c = r.random()
            if c < 0.4:
                return sym.Integer(r.choice([1, 2, 3, -1, -2, 5, 10]))
            if c < 0.8:
                return sym.Float(r.choice([0.5, 1.5, -2.25, 0.1, 3.75, 1e-3, 12.0]))
            return sym.Rational(r.choice([1, -1, 2, 3]), r.choice([2, 3, 4, 7]))

        def term(dd):
            c = r.random()
            if dd <= 0 or c < 0.3:
                return self.symbol() if r.random() < 0.7 else coeff()
            if c < 0.75:
                op = r.choice("+-**/")
                a, b = term(dd - 1), term(dd - 1)
                if op == "+":
                    return a + b
                if op == "-":
                    return a - b
                if op == "*":
                    return a * b
                return a / (b if b != 0 else 1)
            if c < 0.85:
                return term(dd - 1) ** r.choice([2, 3, -1, -2])
            if c < 0.92:
                # a number raised to a symbolic power, possibly negated
                base = r.choice([sym.Float(2.5), sym.Float(0.5), sym.Integer(2), sym.Float(1e-05), sym.Float(1.5e22), sym.Integer(10)])
                e_ = base ** (self.symbol() + r.choice([0, 1]))
                return -e_ if r.random() < 0.6 else e_
            return -term(dd - 1)

        for _ in range(20):
            try:
                e = coeff() * term(d) + (coeff() if r.random() < 0.3 else 0)
            except ZeroDivisionError:
                continue
            if isinstance(e, sym.Expr) and e.free_symbols and e.is_finite is not False and not e.has(sym.zoo, sym.nan, sym.oo):
                return e
        return self.symbol()

    def array(self):
        r = self.r
        k = r.choice("ifc")
        rows, cols = r.randint(1, 5), r.randint(1, 6)
        self.kinds.add("array")
        prev = getattr(self, "_arrays", [])
        self._arrays = prev
        if prev and r.random() < 0.3:
            # twins: arrays that are equal to an earlier one in some sense (same object, equal values in another dtype, same zero bytes)
            a = r.choice(prev)
            how = r.choice(["same-object", "equal-other-dtype", "zeros-other-dtype", "equal-copy", "same-bytes-other-shape"])
            self.tags.add("twin-array:" + how)
            if how == "same-object":
                return a
            if how == "equal-copy":
                return a.copy()
            if how == "same-bytes-other-shape":
                b = np.ascontiguousarray(a).reshape(a.shape[::-1]) if a.shape[0] != a.shape[1] else np.ascontiguousarray(a).reshape(1, -1)
                self.tags.add("kind:array:" + b.dtype.kind)
                prev.append(b)
                return b
            if how == "equal-other-dtype":
                if a.dtype.kind == "i" and abs(a).max() < 2 ** 50:
                    b = a.astype(np.float64 if r.random() < 0.5 else np.complex128)
                elif a.dtype.kind == "f":
                    b = a.astype(np.complex128)
                else:
                    b = a.copy()
                self.tags.add("kind:array:" + b.dtype.kind)
                prev.append(b)
                return b
            z = np.zeros(a.shape, dtype={"i": np.float64, "f": np.int64, "c": np.int64}[a.dtype.kind])
            z0 = np.zeros(a.shape, dtype=a.dtype)
            self.tags.add("kind:array:" + z.dtype.kind)
            prev.append(z)
            self._pending_twin = z0
            return z
        self.tags.add("kind:array:" + k)
        if getattr(self, "_pending_twin", None) is not None and r.random() < 0.8:
            a, self._pending_twin = self._pending_twin, None
            prev.append(a)
            return a
        if k == "i":
            a = np.array([[self.i() for _ in range(cols)] for _ in range(rows)], dtype=np.int64)
        elif k == "f":
            a = np.array([[self.f() for _ in range(cols)] for _ in range(rows)], dtype=np.float64)
        else:
            a = np.array([[self.c() for _ in range(cols)] for _ in range(rows)], dtype=np.complex128)
        if r.random() < 0.1:
            a = np.zeros_like(a)
        c_ = r.random()
        if c_ < 0.2:
            # arrays that are not stored in C order: transposes, Fortran order, reversed views
            lay = r.choice(["transpose", "fortran", "flip-rows", "flip-cols", "conj-transpose", "strided"])
            self.tags.add("layout:" + lay)
            if lay == "transpose":
                a = a.T
            elif lay == "fortran":
                a = np.asfortranarray(a)
            elif lay == "flip-rows":
                a = a[::-1]
            elif lay == "flip-cols":
                a = a[:, ::-1]
            elif lay == "conj-transpose":
                a = a.conj().T
            else:
                big_ = np.zeros((a.shape[0] * 2, a.shape[1] * 2), dtype=a.dtype)
                big_[::2, ::2] = a
                a = big_[::2, ::2]
        prev.append(a)
        return a

    def list_(self):
        r = self.r
        self.tags.add("kind:list")
        self.kinds.add("list")
        n = r.choice([1, 1, 2, 3, 5])
        return [self.scalar() for _ in range(n)]

    def value(self, positional):
        r = self.r
        c = r.random()
        if c < 0.15:
            return self.array()
        if c < 0.3 and not positional:
            return self.list_()
        return self.scalar(allow_sym=True)

    def options(self):
        r = self.r
        d = {}
        for _ in range(r.choice([0, 1, 2, 3])):
            k = self.G.ident(fresh=False)
            if r.random() < 0.25:
                d[k] = self.list_()
                self.tags.add("options-list")
            else:
                d[k] = self.scalar()
        if d:
            self.tags.add("options")
        return d

    def program(self):
        import blackbird

        r = self.r
        p = blackbird.BlackbirdProgram(name=self.G.ident(), version=r.choice(["1.0", "0.1", "2.5", "1.00", "10.25"]))
        if r.random() < 0.5:
            p._target["name"] = r.choice(gen.DEVICES)
            p._target["options"] = self.options()
        if r.random() < 0.3:
            p._type["name"] = self.G.ident(fresh=False)
            if r.random() < 0.4:
                # the one program type with a serialisation rule of its own
                p._type["name"] = "tdm"
                self.tags.add("type:tdm")
            p._type["options"] = self.options()
        pnames = []
        if p._type["name"] == "tdm" and r.random() < 0.7:
            # variables of a tdm program: p-arrays (passed by name), and ordinary variables whose names are the ones the
            # serialiser would pick for hoisted arrays
            for nm_ in r.sample(["p0", "p1", "p2", "p7", "p42"], r.choice([1, 1, 2, 3])):
                p._var[nm_] = np.ascontiguousarray(self.array())
                pnames.append(nm_)
            for nm_ in r.sample(["A0", "A1", "A2", "A3"], r.choice([0, 1, 1, 2])):
                p._var[nm_] = self.array() if r.random() < 0.5 else r.choice([self.i(), self.f(), self.c()])
                self.tags.add("tdm:variable-named-like-hoisted-array")
            self.tags.add("tdm:variables")
            if r.random() < 0.5:
                for key in ("_target", "_type"):
                    d_ = getattr(p, key)
                    if d_["name"] is not None and r.random() < 0.6:
                        d_["options"] = dict(d_["options"] or {})
                        d_["options"][self.G.ident(fresh=False)] = r.choice(pnames + ["A0"]) if r.random() < 0.7 else [1, r.choice(pnames)]
                        self.tags.add("tdm:option-string-names-a-variable")
        for _ in range(r.choice([1, 2, 2, 3, 5, 8])):
            nm = r.choice([1, 1, 2, 3, 4])
            modes = r.sample(range(0, 40), nm)
            if r.random() < 0.3:
                modes = [np.int64(m) for m in modes]
                self.tags.add("np-int-modes")
            op = {"op": self.G.opname(), "modes": modes}
            if r.random() < 0.85:
                op["args"] = [self.value(True) for _ in range(r.choice([0, 1, 1, 2, 3]))]
                if pnames and r.random() < 0.5:
                    op["args"].insert(r.randint(0, len(op["args"])), r.choice(pnames))
                    self.tags.add("tdm:p-array-by-name")
                kw = {}
                for _ in range(r.choice([0, 0, 1, 2, 3])):
                    kw[self.G.ident(fresh=False)] = self.value(False)
                op["kwargs"] = kw
            else:
                self.tags.add("no-arglist")
            p._operations.append(op)
        return p


def has_function_node(c):
    st = []
    for o in c["ops"]:
        st.extend(o["args"] or [])
        st.extend(a for _, a in (o["kwargs"] or []))
    while st:
        v = st.pop()
        if isinstance(v, (list, tuple)):
            st.extend(v)
        elif isinstance(v, sym.Expr):
            if v.atoms(sym.Function) or any(p.exp.is_Rational and not p.exp.is_Integer for p in v.atoms(sym.Pow)):
                return True
    return False


def has_empty_list(c):
    for o in c["ops"]:
        for _, a in (o["kwargs"] or []):
            if isinstance(a, list) and not a:
                return True
    for key in ("target", "type"):
        for _, a in c[key]["options"]:
            if isinstance(a, list) and not a:
                return True
    return False


def check_program(ctx, p, tags=(), kinds=()):
    import blackbird

    g = common.grammar()
    c0 = content.program_content(p)
    desc = content.content_jsonable(c0, with_vars=False)
    try:
        text = blackbird.dumps(p)
    except Exception as e:
        ctx.case(repr(desc), True, tags=tags)
        return ctx.violation("dumps-raises:" + common.exc_key(e), "dumps() raised %s" % common.exc_text(e), {"program": desc})
    nt = len(p.operations) >= 2 and len(kinds) >= 4 and any(k in kinds for k in ("array", "list", "sympy", "np.int64", "np.float64", "np.complex128"))
    ctx.case(text, nt, tags=tags)
    ctx.sample({"serialised": text}, limit=1)
    witness = {"program": desc, "text": text}
    ok, bad, toks = g.is_sentence(text)
    q, exc = common.real_loads(text)
    if exc is not None:
        if has_function_node(c0) and type(exc).__name__ == "TypeError":
            return ctx.violation("function-of-parameter", "a SymPy argument containing a function/fractional power serialises to a function of a parameter, which cannot be loaded: %s" % common.exc_text(exc), witness)
        where = "" if ok else " (text is not a sentence: first bad token %r)" % (toks[bad].text if bad < len(toks) else "EOF",)
        return ctx.violation("reload-raises:" + common.exc_key(exc), "loads(dumps(P)) raised %s%s" % (common.exc_text(exc), where), witness)
    if not ok:
        return ctx.violation("not-a-sentence-but-loaded", "serialised text is not a sentence of the grammar yet it loaded", witness)
    c1 = content.program_content(q)
    d = content.diff_real(c0, c1, content.Cfg(numbers="exact", sym_rtol=1e-9, seed="C09"), skip=("parameters",))
    if d:
        if has_empty_list(c0) and all(x[1] == "kwarg-keys" for x in d) and _only_empty_missing(c0, c1):
            return ctx.violation("empty-list-kwarg-dropped", "an empty-list keyword argument does not survive dumps/loads: " + common.diff_text(d, 2), witness)
        return ctx.violation(common.diff_key(d), common.diff_text(d), witness)
    # variables the program was given (tdm programs declare them in the script): each must come back exactly
    for k, v in p.variables.items():
        if isinstance(v, sym.Basic):
            continue
        if k not in q.variables:
            return ctx.violation("variable-lost", "variable %r of the program is not declared by the reloaded script" % k, witness)
        dv = []
        content.diff_values(v, q.variables[k], "variables." + k, content.Cfg(numbers="exact", seed="C09v"), dv)
        if dv:
            return ctx.violation(common.diff_key(dv), common.diff_text(dv), witness)


def _only_empty_missing(c0, c1):
    for a, b in zip(c0["ops"], c1["ops"]):
        ka = [k for k, v in (a["kwargs"] or []) if not (isinstance(v, list) and not v)]
        kb = [k for k, _ in (b["kwargs"] or [])]
        if ka != kb:
            return False
    return True


def from_desc(d):
    """Rebuild a program from a corpus description (plain JSON with tagged values)."""
    import blackbird

    def val(x):
        t = x[0]
        if t == "int":
            return int(x[1])
        if t == "np.int64":
            return np.int64(x[1])
        if t == "float":
            return float.fromhex(x[1]) if isinstance(x[1], str) else float(x[1])
        if t == "np.float64":
            return np.float64(float.fromhex(x[1]) if isinstance(x[1], str) else x[1])
        if t == "complex":
            return complex(float(x[1]), float(x[2]))
        if t == "bool":
            return bool(x[1])
        if t == "str":
            return x[1]
        if t == "list":
            return [val(y) for y in x[1]]
        if t == "array":
            return np.array(x[2], dtype={"i": np.int64, "f": np.float64, "c": np.complex128}[x[1]])
        if t == "carray":
            return np.array([[complex(a, b) for a, b in row] for row in x[1]], dtype=np.complex128)
        if t == "sympy":
            return sym.sympify(x[1])
        raise ValueError(t)

    p = blackbird.BlackbirdProgram(name=d.get("name", "prog"), version=d.get("version", "1.0"))
    if d.get("target"):
        p._target["name"] = d["target"][0]
        p._target["options"] = {k: val(v) for k, v in d["target"][1]}
    for o in d["ops"]:
        op = {"op": o["op"], "modes": o["modes"]}
        if "args" in o:
            op["args"] = [val(x) for x in o["args"]]
            op["kwargs"] = {k: val(v) for k, v in o.get("kwargs", [])}
        p._operations.append(op)
    return p


def run(ctx):
    g = common.grammar()
    if ctx.worker == 0:
        for e in common.corpus(ID):
            check_program(ctx, from_desc(e["program"]), tags=["corpus"], kinds=("array", "list", "int", "float"))
    n = ctx.share(BUDGET[ctx.tier])
    for i in range(n):
        rng = ctx.rng(i)
        b = Builder(rng, g)
        try:
            p = b.program()
        except RuntimeError:
            ctx.out_of_domain("generator gave up")
            continue
        check_program(ctx, p, tags=sorted(b.tags), kinds=b.kinds)
    ctx.observe("uncheckable symbolic comparisons", content.UNCHECKABLE[0])


def replay(w):
    # the witness holds the serialised text and a rendering of the program; replay what can be replayed: the text
    if "text" not in w:
        return None
    g = common.grammar()
    ok, bad, toks = g.is_sentence(w["text"])
    q, exc = common.real_loads(w["text"])
    if exc is not None:
        return "reload raises %s (sentence=%s)" % (common.exc_text(exc), ok)
    c1 = content.content_jsonable(content.program_content(q), with_vars=False)
    want = dict(w["program"])
    for k in ("parameters", "is_template", "modes", "len"):
        want.pop(k, None)
        c1.pop(k, None)
    return None if want == c1 else "reloaded content differs from the recorded program rendering"
