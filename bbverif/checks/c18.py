"""C18 - comments, blank lines, spacing and line-ending style do not change the program.

Metamorphic monitor: content(loads(variant)) must equal content(loads(base))
exactly, for variants made by combining the layout edits the statement lists.
Generator self-check: the variant's reference token stream (ignoring NEWLINE
multiplicity and the spelling of TAB) must equal the base's and the variant must
still be a sentence; otherwise the edit was not a layout edit and is discarded.
"""
import os
import shutil
import tempfile

from .. import common, content, gen

ID = "C18"
LEVEL = "exploration"
TECHNIQUE = "runtime metamorphic monitor: program content under combined layout edits, with a token-stream self-check of each edit by the grammar-derived lexer"
RULE = ("valid base scripts (all features) x combinations of: end-of-line comments (with/without preceding space), own-line comments and blank "
        "lines (column 0 or <=3 spaces) before the metadata / between top-level items / between loop-body statements, runs of 1-3 spaces at "
        "token boundaries and line ends (not next to indentation), uniform LF/CRLF/CR, tab <-> four spaces per indented line, with/without final "
        "newline; non-trivial = >=3 kinds of edit on a base with a loop or an array; distinct by SHA-1 of the variant"
        '; comments ending in a backslash; an ungrammatical variant with an unchanged token stream is a violation')
BUDGET = {"quick": 1200, "thorough": 16000}   # base scripts; several variants each
VARIANTS = {"quick": 4, "thorough": 8}
MIN_NONTRIVIAL = {"quick": 600, "thorough": 6000}
REQUIRED_FUNCTIONS = ["listener.py:parse", "listener.py:BlackbirdListener.exitStatement", "listener.py:BlackbirdListener.exitArrayvar", "listener.py:BlackbirdListener.exitForloop"]
FUNCTIONS = REQUIRED_FUNCTIONS
REQUIRED_HOOKS = ["variant loaded through load()"]
REQUIRED_TAGS = ["edit:eol-comment", "edit:own-line-comment", "edit:blank-line", "edit:spaces", "edit:crlf", "edit:cr", "edit:tab-swap", "edit:final-newline",
                 "edit:before-metadata", "edit:inside-loop-body"]
ASSUMPTIONS = ["an edit is a layout edit iff the grammar-derived lexer yields the same token stream up to NEWLINE multiplicity / TAB spelling and the text stays a sentence"]

COMMENTS = ["# c", "#", "# G(1) | 0", "#name x", '# "quoted" {p} q0', "#\t tab", "# for int i in 0:3", "#float array A =", "# " + "long comment " * 12,
            "## | [] () , = ** 1+2j", "#" + " " * 40 + "x", "# unbalanced \" quote and { brace", "#include \"x.xbb\"", "# é unicode ü",
            "# form feed\x0cRgate(0.3) | 1", "# vertical tab\x0bVac | 0", "# fs\x1cG | 1", "# gs\x1dG | 1", "# rs\x1eG | 1", "# nel\u0085Xgate(1) | 2",
            "# ls\u2028Zgate(2) | 0", "# ps\u2029Zgate(2) | 0",
            "# ends with a backslash \\", "# backslash and spaces \\  ", "#\\", "# path C:\\dir\\"]


def signature(toks):
    out = []
    for t in toks:
        if t.type == "NEWLINE":
            if out and out[-1] != "NL":
                out.append("NL")
        elif t.type == "TAB":
            out.append("TAB")
        else:
            out.append((t.type, t.text))
    while out and out[-1] == "NL":
        out.pop()
    return out


def make_variant(rng, g, base):
    lines = base.split("\n")
    final_nl = base.endswith("\n")
    if final_nl:
        lines = lines[:-1]
    edits = set()
    kinds = rng.sample(["eol-comment", "own-line-comment", "blank-line", "spaces", "line-ending", "tab-swap", "final-newline"], rng.randint(1, 7))
    # classify lines
    def indented(ln):
        return ln.startswith(("\t", "    "))

    out = []
    in_array = False
    prev_header_for = False
    for i, ln in enumerate(lines):
        stripped = ln.strip(" \t")
        is_ind = indented(ln)
        # is this indented line an array row or a loop-body statement?
        if not is_ind:
            in_array = False
        loop_stmt = is_ind and not in_array
        # insertion of own-line comments / blank lines before this line
        can_insert = (not is_ind) or (loop_stmt and not prev_header_for)
        if can_insert and not (i > 0 and in_array_prev(lines, i)) or (can_insert and not is_ind):
            if "own-line-comment" in kinds and rng.random() < 0.25:
                out.append(rng.choice(["", " ", "  ", "   "]) + rng.choice(COMMENTS))
                edits.add("own-line-comment")
                if i <= 1:
                    edits.add("before-metadata" if i == 0 else "own-line-comment")
                if loop_stmt:
                    edits.add("inside-loop-body")
            if "blank-line" in kinds and rng.random() < 0.25:
                out.append(rng.choice(["", "", " ", "   "]))
                if rng.random() < 0.1:
                    out.extend([""] * rng.choice([5, 12, 30]))
                edits.add("blank-line")
                if i == 0:
                    edits.add("before-metadata")
                if loop_stmt:
                    edits.add("inside-loop-body")
        new = ln
        if "spaces" in kinds and stripped and not stripped.startswith("#"):
            new = respace(rng, g, ln)
            if new != ln:
                edits.add("spaces")
        if "tab-swap" in kinds and is_ind and rng.random() < 0.7:
            if new.startswith("\t"):
                new = "    " + new[1:]
            elif new.startswith("    "):
                new = "\t" + new[4:]
            edits.add("tab-swap")
        if "eol-comment" in kinds and stripped and rng.random() < 0.35:
            new = new + rng.choice(["", " ", "  "]) + rng.choice(COMMENTS)
            edits.add("eol-comment")
        out.append(new)
        prev_header_for = stripped.startswith("for ") and not is_ind
        if not is_ind and " array " in ln and stripped.endswith("="):
            in_array = True
    text = "\n".join(out)
    if "final-newline" in kinds:
        if final_nl:
            edits.add("final-newline")
        else:
            text += "\n"
            edits.add("final-newline")
    elif final_nl:
        text += "\n"
    if "own-line-comment" in kinds and rng.random() < 0.3:
        text = rng.choice(COMMENTS) + "\n" + rng.choice(["", "\n"]) + text
        edits.add("before-metadata")
        edits.add("own-line-comment")
    if "line-ending" in kinds:
        le = rng.choice(["\r\n", "\r"])
        text = text.replace("\n", le)
        edits.add("crlf" if le == "\r\n" else "cr")
    return text, edits


def in_array_prev(lines, i):
    """True when line i-1 is an array row or an array header (so that nothing may be inserted before line i if it is a row)."""
    j = i - 1
    while j >= 0 and lines[j].startswith(("\t", "    ")):
        j -= 1
    return j >= 0 and " array " in lines[j] and lines[j].rstrip().endswith("=") and lines[i].startswith(("\t", "    "))


def respace(rng, g, ln):
    """Re-render one line from its tokens with runs of 1-3 spaces at token
    boundaries; the indentation token and the boundary next to it are untouched."""
    try:
        toks = g.tokenize(ln)
    except ValueError:
        return ln
    if not toks:
        return ln
    out = []
    pos = 0
    for k, t in enumerate(toks):
        gap = ln[pos : t.pos]
        first_after_indent = k == 1 and toks[0].type == "TAB"
        if k == 0 or first_after_indent or "#" in gap:
            out.append(gap)
        else:
            c = rng.random()
            if gap == "":
                out.append("" if c < 0.7 else " " * rng.randint(1, 3))
            else:
                out.append(gap if c < 0.4 else " " * rng.randint(1, 3))
        out.append(t.text)
        pos = t.pos + len(t.text)
    tail = ln[pos:]
    if "#" not in tail and rng.random() < 0.3:
        tail = " " * rng.randint(1, 3)
    out.append(tail)
    return "".join(out)


def options_for(rng):
    return dict(params=rng.choice([0.0, 0.1]), regrefs=rng.choice([0.0, 0.1]), loops=rng.choice([0.3, 0.6]), arrays=0.7, kwlists=0.4, options=0.5,
                layout=0.0, funcs=rng.random() < 0.5, tdm=rng.random() < 0.1)


def load_file(text):
    import blackbird

    d = tempfile.mkdtemp(prefix="bbv-c18-")
    path = os.path.join(d, "s.xbb")
    try:
        with open(path, "w", encoding="utf-8", newline="") as f:
            f.write(text)
        try:
            return blackbird.load(path), None
        except Exception as e:  # noqa
            return None, e
    finally:
        shutil.rmtree(d, ignore_errors=True)


def check_base(ctx, base, rng, nvariants):
    g = common.grammar()
    kind = common.classify(base)
    if kind[0] != "ok":
        return ctx.out_of_domain("base not valid/in domain (%s)" % (kind[0] if kind[0] != "ood" else kind[1].split(" (")[0]))
    ref = kind[1]
    P, exc = common.real_loads(base)
    if exc is not None:
        return ctx.out_of_domain("base does not load (other properties' business): " + type(exc).__name__)
    cb = content.program_content(P)
    sb = signature(g.tokenize(base))
    rich = "loop" in ref.features or any(f.startswith("array:") for f in ref.features)
    cfg = content.Cfg(numbers="exact", seed="C18")
    for v in range(nvariants):
        text, edits = make_variant(rng, g, base)
        if text == base:
            ctx.out_of_domain("variant identical to base")
            continue
        try:
            ok, bad, toks = g.is_sentence(text)
        except ValueError:
            ctx.out_of_domain("variant not lexable by the reference")
            continue
        witness = {"base": base, "variant": text, "edits": sorted(edits)}
        if signature(toks) != sb:
            if "spaces" in edits:
                # inserted spaces can merge with indentation or split tokens: excluded by the quantifier
                ctx.out_of_domain("edit changed the token stream (not a layout edit)")
                continue
            # comments, blank lines, line-ending style, tab spelling and the final newline can never change the
            # token stream of a language in which they are insignificant
            ctx.case(text, True, tags=["edit:" + e for e in edits])
            return ctx.violation("layout-changes-token-stream:" + "+".join(sorted(edits - {"before-metadata", "inside-loop-body"})),
                                 "edits %s (no spacing edit) change the token stream prescribed by the grammar file: the lexer rules treat a layout the property declares insignificant as significant" % sorted(edits), witness)
        if not ok:
            # the token stream equals the base's up to the number of consecutive NEWLINE tokens and the spelling of TAB
            # (checked above), and blank / comment lines are only inserted where the property allows them (between
            # statements, between loop-body statements, before the metadata): the variant must be a sentence
            ctx.case(text, True, tags=["edit:" + e for e in edits])
            return ctx.violation("layout-makes-ungrammatical:" + "+".join(sorted(edits - {"before-metadata", "inside-loop-body"})), "edits %s make a valid script ungrammatical" % sorted(edits), witness)
        nt = len(edits) >= 3 and rich
        ctx.case(text, nt, tags=["edit:" + e for e in edits])
        ctx.sample({"base": base, "variant": text, "edits": sorted(edits)}, limit=1)
        via_file = rng.random() < 0.15
        if via_file:
            # the same variant through load(): written as UTF-8 with its line endings untouched
            witness["via"] = "load"
            Q, exc = load_file(text)
            ctx.hook("variant loaded through load()")
        else:
            Q, exc = common.real_loads(text)
        if exc is not None:
            return ctx.violation("variant-raises:" + common.exc_key(exc), "a layout variant (%s)%s raised %s" % (sorted(edits), " read from a file" if via_file else "", common.exc_text(exc)), witness)
        d = content.diff_real(cb, content.program_content(Q), cfg, variables=True)
        if d:
            return ctx.violation(common.diff_key(d), "layout variant (%s) changed the program: %s" % (sorted(edits), common.diff_text(d)), witness)


def run(ctx):
    g = common.grammar()
    nv = VARIANTS[ctx.tier]
    if ctx.worker == 0:
        for j, e in enumerate(common.corpus(ID)):
            check_base(ctx, e["text"], ctx.rng("corpus", j), 12)
    n = ctx.share(BUDGET[ctx.tier])
    for i in range(n):
        rng = ctx.rng(i)
        try:
            base, info = gen.script(rng, g, n_stmts=(2, 10), **options_for(rng))
        except RuntimeError:
            ctx.out_of_domain("generator gave up")
            continue
        if rng.random() < 0.1:
            # a loop with many iterations whose body mixes statements that use the loop variable with ones that do not
            v = "lv%d" % rng.randint(0, 99)
            n_it = rng.choice([33, 40, 64, 100])
            body = ["Sgate(0.5, 0) | 0", "Rgate(0.25) | %s" % v, "Dgate(k=%s) | [1, %s + 200]" % (v, v), "Vac | 300"]
            rng.shuffle(body)
            base = base.rstrip("\n") + "\nfor int %s in 0:%d\n" % (v, n_it) + "".join(rng.choice(["    ", "\t"]) + b + "\n" for b in body[: rng.randint(2, 4)])
        check_base(ctx, base, rng, nv)


def replay(w):
    g = common.grammar()
    P, e1 = common.real_loads(w["base"])
    Q, e2 = load_file(w["variant"]) if w.get("via") == "load" else common.real_loads(w["variant"])
    if e1 is not None:
        return None
    if e2 is not None:
        return "variant raises %s" % common.exc_text(e2)
    d = content.diff_real(content.program_content(P), content.program_content(Q), content.Cfg(numbers="exact", seed="C18"), variables=True)
    return common.diff_text(d) if d else None
