"""C16 - the dependency graph is an order-respecting DAG of the operations.

Reference-model monitor: the reference relation is the transitive closure of
"i<j and operations i and j share a mode or a measured register", computed from
the operation list; the real graph's nodes, attributes, edge directions and
reachability are compared with it, and random topological orders are checked
per mode.
"""
import os
import networkx as nx

from .. import common, content, gen

ID = "C16"
LEVEL = "exploration"
TECHNIQUE = "runtime reference-model monitor of to_DiGraph: node set/attributes, edge direction, reachability vs transitive closure of the share relation; sampled topological orders checked per mode"
RULE = ("programs of 1-60 operations over 1-6 modes (few modes => contended wires), 1-4 modes per operation, with and without argument "
        "lists, register arguments in positional and keyword position, built through loads() and directly through the API; non-trivial = "
        ">=4 operations, a multi-mode operation and either a register dependency or an argument-less operation; distinct by SHA-1 of the op list"
        '; a tenth of the programs use negative mode numbers'
        '; register-valued variables used as arguments; a tenth of the programs run as an included file applied 2-4 times')
BUDGET = {"quick": 6000, "thorough": 100000}
MIN_NONTRIVIAL = {"quick": 800, "thorough": 8000}
REQUIRED_FUNCTIONS = ["utils.py:to_DiGraph"]
FUNCTIONS = REQUIRED_FUNCTIONS
REQUIRED_TAGS = ["via:loads", "via:api", "regref:positional", "regref:keyword", "no-arglist", "multi-mode", "single-op", "repeated-mode", "regref:same-register-twice", "instance-after-template-graph", "regref:via-variable", "via:include"]
ASSUMPTIONS = ["share relation: a common mode, or a mode of one operation that is a measured register used by the other (either direction, as wires)"]


def build_text(rng, g):
    G = gen.Gen(rng, g, layout=0.0, funcs=False, complex=False, hostile_names=0.1)
    nmodes = rng.randint(1, 6)
    pool = rng.sample(range(0, 12), nmodes)
    n = rng.choice([1, 2, 3, 5, 8, 12, 20, 35, 60]) if rng.random() < 0.5 else rng.randint(1, 25)
    if rng.random() < 0.04:
        # long programs, many wires, large mode numbers
        nmodes = rng.choice([8, 12, 20])
        pool = rng.sample(list(range(0, 40)) + [100, 255, 256, 1000, 4096, 65535], nmodes)
        n = rng.choice([100, 150, 250])
        tags_big = True
    else:
        tags_big = False
    lines = ["name " + G.ident(), "version 1.0", ""]
    tags = set()
    if rng.random() < 0.1:
        # negative mode numbers are integers like any other (no register refers to them)
        neg = {m: -rng.choice([1, 2, 3, 7, 12, 100]) for m in rng.sample(pool, rng.randint(1, len(pool)))}
        if len(set(neg.values())) == len(neg):
            pool = [neg.get(m, m) for m in pool]
            tags.add("negative-modes")
    wires = []
    if tags_big:
        tags.add("big")
    regvars = {}
    if rng.random() < 0.2:
        # scalar variables holding an expression over a measured register: an operation that takes such a variable as an
        # argument reads the register although no q<k> is written in its own argument list
        for _ in range(rng.choice([1, 2])):
            r_ = rng.choice([m for m in pool if m >= 0] + [rng.randint(0, 14)])
            v_ = G.ident()
            regvars[v_] = r_
            tags.add("regvar-declared")
            lines.append("float %s = %s" % (v_, rng.choice(["2*q%d", "q%d/2", "q%d", "0.5*q%d + 1"]) % r_))
    for _ in range(n):
        extra = set()
        k = rng.choice([1, 1, 1, 2, 2, 3, 4])
        ms = rng.sample(pool, min(k, len(pool)))
        if rng.random() < 0.04:
            ms = ms + [ms[0]]   # the same mode listed twice
            tags.add("repeated-mode")
        c = rng.random()
        if c < 0.3:
            al = ""
            tags.add("no-arglist")
        elif c < 0.4:
            al = "()"
        else:
            args = []
            kws = []
            for _ in range(rng.choice([0, 1, 2])):
                if rng.random() < 0.35:
                    regs = rng.sample([m for m in pool if m >= 0] + [rng.randint(0, 14)], rng.choice([1, 1]) if all(m < 0 for m in pool) else rng.choice([1, 1, 2]))
                    args.append(" + ".join("%s*q%d" % (rng.choice(["2", "0.5", "1"]), r) for r in regs))
                    tags.add("regref:positional")
                    if rng.random() < 0.3:
                        # the same register read by a second argument of this operation
                        kws.append("%s=3*q%d" % (G.ident(fresh=False), regs[0]))
                        tags.add("regref:same-register-twice")
                elif regvars and rng.random() < 0.4:
                    v_ = rng.choice(sorted(regvars))
                    if rng.random() < 0.5:
                        args.append(v_)
                    else:
                        kws.append("%s=%s" % (G.ident(fresh=False), v_))
                    extra.add(regvars[v_])
                    tags.add("regref:via-variable")
                else:
                    args.append(rng.choice(["1", "0.5", "2*3", "pi"]))
            for _ in range(rng.choice([0, 0, 1])):
                if rng.random() < 0.4:
                    r = rng.choice([m for m in pool if m >= 0] + [rng.randint(0, 14)])
                    kws.append("%s=q%d/2" % (G.ident(fresh=False), r))
                    tags.add("regref:keyword")
                else:
                    kws.append("%s=%s" % (G.ident(fresh=False), rng.choice(["1", "[1, 2]", "True"])))
            al = "(" + ", ".join(args + kws) + ")"
        lines.append("%s%s | [%s]" % (G.opname(), al, ", ".join(str(m) for m in ms)))
        wires.append(set(ms) | extra | {int(x) for x in __import__("re").findall(r"(?<![A-Za-z0-9_])q(\d+)(?![A-Za-z0-9_])", al)})
    return "\n".join(lines) + "\n", tags, wires


def regvars_used(text):
    return bool(__import__("re").search(r"(?<![A-Za-z0-9_])q\d+(?![A-Za-z0-9_])", text))


def op_wires(op, RRT):
    w = set(int(m) for m in op["modes"])
    for a in list(op.get("args", [])) + list(op.get("kwargs", {}).values()):
        if isinstance(a, RRT):
            w |= set(a.regrefs)
    return w


def check_program(ctx, P, tags, via, witness, wires=None):
    import numpy as np
    from blackbird.listener import RegRefTransform
    from blackbird.utils import to_DiGraph

    ops = P.operations
    n = len(ops)
    snapshot = [(o["op"], list(o["modes"]), "args" in o) for o in ops]
    # the wires of each operation as written in the script (generator's knowledge); only corpus
    # entries fall back to reading them off the loaded operations
    if wires is None:
        wires = [op_wires(o, RegRefTransform) for o in ops]
    if len(wires) != n:
        return ctx.violation("machinery:wires", "generator recorded %d operations, program has %d" % (len(wires), n), witness)
    tags = set(tags) | {via}
    if n == 1:
        tags.add("single-op")
    if any(len(o["modes"]) > 1 for o in ops):
        tags.add("multi-mode")
    nt = n >= 4 and "multi-mode" in tags and (any(t.startswith("regref") for t in tags) or "no-arglist" in tags)
    ctx.case(repr([(o["op"], o["modes"], sorted(w)) for o, w in zip(ops, wires)]), nt, tags=sorted(tags))
    try:
        G = to_DiGraph(P)
    except Exception as e:
        return ctx.violation("raises:" + common.exc_key(e), "to_DiGraph raised %s" % common.exc_text(e), witness)
    ctx.sample({"operations": [(o["op"], [int(m) for m in o["modes"]]) for o in ops][:12], "edges": sorted(G.edges())[:20]}, limit=1)
    if set(G.nodes()) != set(range(n)):
        return ctx.violation("node-set", "nodes %s for %d operations" % (sorted(G.nodes())[:20], n), witness)
    for i in range(n):
        d = G.nodes[i]
        o = ops[i]
        nm = d.get("modes", ())
        if d.get("name") != o["op"] or not isinstance(nm, (tuple, list)) or tuple(nm) != tuple(o["modes"]):
            return ctx.violation("node-attributes", "node %d carries %r, operation is %r on %r" % (i, (d.get("name"), nm), o["op"], o["modes"]), witness)
        a = d.get("args")
        k = d.get("kwargs")
        if not isinstance(a, (list, tuple, type(None))) or not isinstance(k, (dict, type(None))):
            return ctx.violation("node-arguments", "node %d carries args %r / kwargs %r, the operation has %r / %r" % (i, a, k, o.get("args"), o.get("kwargs")), witness)
        try:
            differs = list(a if a is not None else []) != list(o.get("args", [])) or dict(k if k is not None else {}) != dict(o.get("kwargs", {}))
        except Exception:  # comparison of arrays etc.
            differs = True
        if differs:
            same = len(a or []) == len(o.get("args", [])) and all(x is y or _eq(x, y) for x, y in zip(a or [], o.get("args", [])))
            ko = o.get("kwargs", {}) or {}
            same = same and set(k or {}) == set(ko) and all((k or {})[x] is ko[x] or _eq((k or {})[x], ko[x]) for x in ko)
            if not same:
                return ctx.violation("node-arguments", "node %d arguments %r / %r differ from the operation's %r / %r" % (i, a, k, o.get("args"), o.get("kwargs")), witness)
    for (i, j) in G.edges():
        if not i < j:
            return ctx.violation("edge-direction", "edge (%d, %d) does not point from an earlier to a later operation" % (i, j), witness)
    # reference reachability: closure of (i<j and wires intersect)
    reach = [[False] * n for _ in range(n)]
    for i in range(n):
        for j in range(i + 1, n):
            if wires[i] & wires[j]:
                reach[i][j] = True
    for k in range(n):
        rk = reach[k]
        for i in range(k):
            if reach[i][k]:
                ri = reach[i]
                for j in range(k + 1, n):
                    if rk[j]:
                        ri[j] = True
    for i in range(n):
        desc = nx.descendants(G, i)
        want = {j for j in range(n) if reach[i][j]}
        if desc != want:
            extra = sorted(desc - want)[:5]
            missing = sorted(want - desc)[:5]
            return ctx.violation("reachability:" + ("missing" if missing else "extra"), "from operation %d: missing dependencies %s, spurious %s" % (i, missing, extra), witness)
    # random topological orders keep the program's order on every mode
    rng = ctx.rng("topo", n, len(G.edges()))
    for _ in range(3):
        order = _random_topological(G, rng)
        pos = {v: k for k, v in enumerate(order)}
        for m in set().union(*wires) if wires else ():
            seq = [i for i in range(n) if m in wires[i]]
            if any(pos[a] > pos[b] for a, b in zip(seq, seq[1:])):
                return ctx.violation("topological-order-reverses-a-mode", "a topological order reverses two operations on wire %d" % m, witness)
    if [(o["op"], list(o["modes"]), "args" in o) for o in ops] != snapshot:
        return ctx.violation("program-changed", "to_DiGraph changed the program's operations", witness)


def _eq(x, y):
    try:
        import numpy as np

        if isinstance(x, np.ndarray) or isinstance(y, np.ndarray):
            return np.array_equal(x, y)
        return x == y
    except Exception:
        return False


def _random_topological(G, rng):
    indeg = {v: G.in_degree(v) for v in G.nodes()}
    ready = [v for v, d in indeg.items() if d == 0]
    out = []
    while ready:
        v = ready.pop(rng.randrange(len(ready)))
        out.append(v)
        for w in G.successors(v):
            indeg[w] -= 1
            if indeg[w] == 0:
                ready.append(w)
    return out


def api_program(rng, text_prog):
    """Rebuild the loaded program through the API (fresh BlackbirdProgram with copied operations)."""
    import copy

    import blackbird

    p = blackbird.BlackbirdProgram(name="api", version="1.0")
    for o in text_prog.operations:
        p._operations.append(copy.copy(o))
    return p


def run(ctx):
    g = common.grammar()
    if ctx.worker == 0:
        for e in common.corpus(ID):
            P, exc = common.real_loads(e["text"])
            if exc is None:
                check_program(ctx, P, e.get("tags", []), "via:loads", {"text": e["text"]})
    n = ctx.share(BUDGET[ctx.tier])
    for i in range(n):
        rng = ctx.rng(i)
        text, tags, wires = build_text(rng, g)
        c = rng.random()
        if c < 0.12 and "regvar-declared" not in tags:
            # (a template with a register-valued variable is outside every property's quantifier: not instantiated here)
            # a template is converted first, then instantiated; the instance's graph must describe the instance
            lines = text.rstrip("\n").split("\n")
            k = rng.randrange(3, len(lines) + 1)
            lines.insert(k, "Tgate({tp}, 0.5, k={tq}) | [%d]" % rng.choice(sorted(wires[0])))
            wires.insert(k - 3, {int(lines[k].split("[")[1].split("]")[0])})
            text = "\n".join(lines) + "\n"
            T, exc = common.real_loads(text)
            if exc is not None:
                ctx.out_of_domain("script does not load (%s)" % type(exc).__name__)
                continue
            from blackbird.utils import to_DiGraph

            try:
                to_DiGraph(T)
                inst = T(tp=rng.uniform(0.1, 2), tq=rng.uniform(0.1, 2))
            except Exception as e:
                ctx.violation("raises:" + common.exc_key(e), "graph conversion / instantiation of a template raised %s" % common.exc_text(e), {"text": text})
                continue
            check_program(ctx, inst, set(tags) | {"instance-after-template-graph"}, "via:loads", {"text": text, "via": "template graph, then instance"}, wires=wires)
            continue
        if c > 0.92 and len(wires) >= 2 and "negative-modes" not in tags:
            # the program is an included file, applied several times by a main script: to exactly its own modes (the
            # operations of the calls must still be separate nodes) and to other modes
            import shutil
            import tempfile

            import blackbird

            own = sorted({int(m) for ln in text.split("\n") if " | [" in ln for m in ln.split(" | [")[1].rstrip("]").split(",")})
            d_ = tempfile.mkdtemp(prefix="bbv-c16-")
            try:
                with open(os.path.join(d_, "lib.xbb"), "w") as f_:
                    f_.write(text.replace(text.split("\n")[0], "name Lib16", 1))
                other = rng.sample(range(20, 60), len(own))
                calls = [own, own] + ([other] if rng.random() < 0.5 else []) + ([own] if rng.random() < 0.3 else [])
                rng.shuffle(calls)
                main = ["name main16", "version 1.0", 'include "lib.xbb"', ""]
                w2 = []
                for cm in calls:
                    main.append("Lib16 | [%s]" % ", ".join(str(m) for m in cm))
                    mp_ = dict(zip(own, cm))
                    # modes are renamed; registers written in arguments are not part of what an include renames
                    for ln, w_ in zip([l_ for l_ in text.split("\n") if " | [" in l_], wires):
                        ms_ = {int(m) for m in ln.split(" | [")[1].rstrip("]").split(",")}
                        w2.append({mp_[m] for m in ms_} | (w_ - ms_))
                    if rng.random() < 0.4:
                        main.append("Vac | %d" % cm[0])
                        w2.append({cm[0]})
                with open(os.path.join(d_, "main.xbb"), "w") as f_:
                    f_.write("\n".join(main) + "\n")
                try:
                    P = blackbird.load(os.path.join(d_, "main.xbb"))
                except Exception as e:
                    ctx.out_of_domain("include scenario does not load (%s)" % type(e).__name__)
                    continue
            finally:
                shutil.rmtree(d_, ignore_errors=True)
            if regvars_used(text):
                # register arguments inside an included program: what the include does to them is not settled here
                check_program(ctx, P, set(tags) | {"via:include"}, "via:loads", {"text": text, "main": "\n".join(main)})
            else:
                check_program(ctx, P, set(tags) | {"via:include"}, "via:loads", {"text": text, "main": "\n".join(main)}, wires=w2)
            continue
        P, exc = common.real_loads(text)
        if exc is not None:
            ctx.out_of_domain("script does not load (%s)" % type(exc).__name__)
            continue
        if c < 0.4:
            check_program(ctx, api_program(rng, P), tags, "via:api", {"text": text, "via": "api"}, wires=wires)
        else:
            check_program(ctx, P, tags, "via:loads", {"text": text}, wires=wires)


def replay(w):
    class C:
        res = None

        def rng(self, *k):
            import random

            return random.Random(repr(k))

        def case(self, *a, **k):
            pass

        def sample(self, *a, **k):
            pass

        def violation(self, key, summary, witness):
            self.res = "%s: %s" % (key, summary)

    c = C()
    P, exc = common.real_loads(w["text"])
    if exc is not None:
        return None
    check_program(c, P, [], "via:loads", w)
    return c.res
