"""C10 - ungrammatical scripts always raise BlackbirdSyntaxError at the offending token.

Reference-model monitor: the grammar-derived lexer + Earley recogniser decide
"sentence or not" and the first non-viable token of every generated text; the
real ``loads``/``load`` must return/raise accordingly.  The syntax stage is
observed through a hook on ``BlackbirdErrorListener.syntaxError`` and through an
independent run of the shipped lexer/parser with a counting listener.
"""
import hashlib
import os
import re
import shutil
import tempfile

from .. import common, content, gen, monitor

ID = "C10"
LEVEL = "exploration"
TECHNIQUE = "runtime reference-model monitor: grammar-derived Earley recogniser decides sentence/first bad token; hook on the error listener observes the syntax stage; token-level mutation workload"
RULE = ("grammatical base scripts covering every rule context; single-token deletions, substitutions (by a token of every type), insertions, adjacent "
        "swaps and truncations (random sample in quick; exhaustive for small bases in thorough), token soups and character soups incl. "
        "characters only ANY matches; a tenth of the texts also through load() from an ASCII file; non-trivial = ungrammatical text, or a "
        "grammatical mutant that differs from its base; distinct by SHA-1 of the text"
        '; files are written to three fixed paths per worker (a grammatical text first, the tested text over it); unusual first characters (BOM, NUL, zero-width space, ...)')
BUDGET = {"quick": 24000, "thorough": 400000}
MIN_NONTRIVIAL = {"quick": 3000, "thorough": 30000}
REQUIRED_FUNCTIONS = ["error.py:BlackbirdErrorListener.syntaxError", "listener.py:parse"]
FUNCTIONS = REQUIRED_FUNCTIONS
REQUIRED_HOOKS = ["syntaxError"]
REQUIRED_TAGS = ["mut:delete", "mut:substitute", "mut:insert", "mut:swap", "mut:truncate", "soup:tokens", "soup:chars", "via:load", "grammatical", "ungrammatical", "probe:viable-continuation", "margin:1", "margin:4", "via:include"]
ASSUMPTIONS = ["'sentence of the grammar' and 'first token that makes the text ungrammatical' are decided by bbverif/g4ref.py from src/blackbird.g4 as it is now",
               "files for load() are ASCII (antlr4.FileStream default); loads() is fed arbitrary Unicode"]

BASES = [
    'name prog\nversion 1.0\ntarget dev (shots=10, flag=True, tag="x", l=[1, 2])\ntype tdm (temporal_modes=3, copies=1)\n\nfloat alpha = 0.5\nint n = 2**3\ncomplex c = 1+2j\nstr s = "abc"\nbool b = True\n'
    'float array A[2, 2] =\n    1, 2\n    3.5, -4\ncomplex array B =\n\t1j, 2+1j\n\nSgate(alpha, 2*pi) | 0\nBSgate(phi=0.5, l=[1, "a", True]) | [0, 1]\nMeasureX | (0, 1)\nVac | n - 7\nDgate(A[1], sqrt(2)) | (2]\n'
    'for int m in 0:3\n    Rgate(m) | m\n    Vac | [m, 4]\nfor float x in [0.5, 1]\n    Kgate(x, k=x) | 1\nMeasureFock() | 0\nGate({p}, q0*2) | 1\n',
    'name a\nversion 1.0\ninclude "x.xbb"\n\nG | 0\n',
    'name t\nversion 0.1\n\nint array M =\n    1, 2, 3\nG(M, k=[]) | 0, 1\nH(1,) | [2]\n',
    'name z\nversion 1.0\ntarget X8_01\nfor str w in "a", "b"\n\tG(w) | 0\n\n\tH | 1\nK(-2**2/3 + sin(1)) | 0\n',
    '\n\nname e\n\nversion 2.0\n\n\nfloat array Q[1, 1] =\n    {Q}\nG(Q) | 0',
    # grammatical (the name rule admits reserved words and registers; refusing them is the semantic stage's business)
    'name r\nversion 1.0\nfloat q0 = 0.5\nint name = 2\ncomplex array version =\n    1, 2\nstr type = "50%"\nG("%d items", k="{0}") | 0\n',
]


class Syn:
    calls = []


def install_hooks():
    from blackbird.error import BlackbirdErrorListener

    def mk(orig):
        def syntaxError(self, recognizer, offendingSymbol, line, column, msg, e):
            try:
                ctx = e.ctx if e else recognizer._ctx
                Syn.calls.append((line, column, type(ctx).__name__, getattr(offendingSymbol, "tokenIndex", None)))
            except Exception:
                Syn.calls.append((line, column, "?", None))
            return orig(self, recognizer, offendingSymbol, line, column, msg, e)

        return syntaxError

    return monitor.wrap_method(BlackbirdErrorListener, "syntaxError", mk)


def encodable(text):
    """Can the text be stored in a (UTF-8) file?  Lone surrogates cannot."""
    try:
        text.encode("utf-8")
        return True
    except UnicodeEncodeError:
        return False


def shipped_syntax_errors(text):
    """Independent run of the shipped lexer+parser with a counting listener."""
    import antlr4
    from antlr4.error.ErrorListener import ErrorListener
    from blackbird.blackbirdLexer import blackbirdLexer
    from blackbird.blackbirdParser import blackbirdParser

    class Count(ErrorListener):
        n = 0
        first = None

        def syntaxError(self, recognizer, offendingSymbol, line, column, msg, e):
            if self.n == 0:
                self.first = (line, column)
            self.n += 1

    lexer = blackbirdLexer(antlr4.InputStream(text))
    lexer.removeErrorListeners()
    lc = Count()
    lexer.addErrorListener(lc)
    parser = blackbirdParser(antlr4.CommonTokenStream(lexer))
    parser.removeErrorListeners()
    pc = Count()
    parser.addErrorListener(pc)
    parser.start()
    return lc.n + pc.n, pc.first


def rebuild(text, toks, new):
    """Text for a mutated token list.  `new` holds original Token objects (their
    surrounding layout is kept) and plain strings (inserted with spaces)."""
    out = []
    prev_end = 0
    pos_of = {id(t): i for i, t in enumerate(toks)}
    last = -1
    for x in new:
        if isinstance(x, str):
            out.append((" " if out and not out[-1].endswith(("\n", " ", "\t")) else "") + x + " ")
        else:
            i = pos_of[id(x)]
            gap_start = toks[i - 1].pos + len(toks[i - 1].text) if i > 0 else 0
            gap = text[gap_start : x.pos] if i == last + 1 else (" " if x.type not in ("NEWLINE",) and out and not out[-1].endswith(("\n", " ", "\t", "    ")) else "")
            out.append(gap + x.text)
            last = i
    return "".join(out)


STR_SAMPLES = ['""', '"s"', '"50%"', '"%d items"', '"%s"', '"{0}"', '"a b"', '"#"', '"100%% {x}"']


def pick(rng, samples, names):
    n = rng.choice(names)
    if n == "STR":
        return rng.choice(STR_SAMPLES)
    if n == "NAME" and rng.random() < 0.3:
        return rng.choice(["foo", "x1", "Sgate", "alpha_2", "e", "j"])
    if n == "ANY" and rng.random() < 0.6:
        return rng.choice(["$", "%", "@", ";", "~", "`", "?", "&", "!", "\\", "^", "'", "\xa0", "\x0c", "\x0b", "\u2028", "\u3000", "\u200b", "\x1c", "\x85", "\x00", "\u00e9"])
    return samples[n]


def mutants(rng, g, text, toks, samples, k):
    """k random single-token mutants (kind, text)."""
    names = [n for n in g.token_names if n not in ("SPACE", "COMMENT")]
    out = []
    n = len(toks)
    for _ in range(k):
        kind = rng.choice(["delete", "substitute", "substitute", "insert", "insert", "swap", "truncate"])
        i = rng.randrange(n)
        if kind == "delete":
            new = toks[:i] + toks[i + 1 :]
        elif kind == "substitute":
            new = toks[:i] + [pick(rng, samples, names)] + toks[i + 1 :]
        elif kind == "insert":
            new = toks[:i] + [pick(rng, samples, names)] + toks[i:]
        elif kind == "swap":
            if i + 1 >= n:
                continue
            new = toks[:i] + [toks[i + 1], toks[i]] + toks[i + 2 :]
        else:
            new = toks[:i]
        out.append(("mut:" + kind, rebuild(text, toks, new)))
    return out


def all_mutants(g, text, toks, samples):
    names = [n for n in g.token_names if n not in ("SPACE", "COMMENT")]
    n = len(toks)
    for i in range(n):
        yield "mut:delete", rebuild(text, toks, toks[:i] + toks[i + 1 :])
        yield "mut:truncate", rebuild(text, toks, toks[:i])
        if i + 1 < n:
            yield "mut:swap", rebuild(text, toks, toks[:i] + [toks[i + 1], toks[i]] + toks[i + 2 :])
        for nm in names:
            yield "mut:substitute", rebuild(text, toks, toks[:i] + [samples[nm]] + toks[i + 1 :])
            yield "mut:insert", rebuild(text, toks, toks[:i] + [samples[nm]] + toks[i:])


LINECOL = re.compile(r"line (\d+):(\d+)")


_FILE_DIR = []


def _file_dir():
    if not _FILE_DIR:
        import atexit

        _FILE_DIR.append(tempfile.mkdtemp(prefix="bbv-c10-"))
        atexit.register(shutil.rmtree, _FILE_DIR[0], ignore_errors=True)
    return _FILE_DIR[0]


FIRST_CHARS = ["\ufeff", "\ufffe", "\x00", "\u200b", "\xa0", "\x0c", "\u2060", "\x1a"]


def check_text(ctx, text, tags=(), base=None, via_load=False):
    import blackbird
    from blackbird.error import BlackbirdSyntaxError

    g = common.grammar()
    try:
        ok, bad, toks = g.is_sentence(text)
    except ValueError as e:
        return ctx.violation("machinery:reflexer", str(e), {"text": text})
    nt = (not ok) or (base is not None and text != base)
    ctx.case(text, nt, tags=list(tags) + ["grammatical" if ok else "ungrammatical"] + (["via:load"] if via_load else []))
    witness = {"text": text, "via_load": via_load}
    del Syn.calls[:]
    prog = exc = None
    if via_load:
        # a handful of fixed paths per worker, written again and again: what load() returns must depend on what the
        # file holds now, not on what the same path held at an earlier load
        d = _file_dir()
        path = os.path.join(d, "s%d.xbb" % (int(hashlib.sha1(text.encode("utf-8", "surrogatepass")).hexdigest()[:4], 16) % 3))
        if base is not None and base != text:
            try:
                with open(path, "w", encoding="utf-8", newline="") as f:
                    f.write(base)
                blackbird.load(path)
                ctx.observe("load() of a path that held another (grammatical) text at the previous load")
            except Exception:   # the base may be ill-formed beyond the grammar; only the sequence matters here
                pass
            del Syn.calls[:]
        with open(path, "w", encoding="utf-8", newline="") as f:
            f.write(text)
        try:
            prog = blackbird.load(path)
        except Exception as e:
            exc = e
    else:
        try:
            prog = blackbird.loads(text)
        except Exception as e:
            exc = e
    ncalls = len(Syn.calls)
    ctx.hook("syntaxError", ncalls)
    if ncalls:
        ctx.observe("error raised in context " + Syn.calls[0][2])
    # the iff, observed on the shipped parser independently of the error listener
    try:
        nerr, first = shipped_syntax_errors(text)
    except Exception as e:
        return ctx.violation("shipped-parser-crashes:" + common.exc_key(e), "shipped lexer/parser raised %s" % common.exc_text(e), witness)
    if ok:
        if nerr or ncalls:
            return ctx.violation("syntax-error-on-sentence", "the text is a sentence of the grammar but the syntax stage reported an error (%d parser errors, listener calls %r)" % (nerr, Syn.calls[:1]), witness)
        ctx.sample({"grammatical": text[:300]}, limit=1)
        return
    if nerr == 0:
        return ctx.violation("no-syntax-error-on-non-sentence", "the text is not a sentence of the grammar but the shipped parser reported no error", witness)
    first_tok = toks[bad] if bad < len(toks) else None
    expect = "first bad token %r at %s" % ((first_tok.text, (first_tok.line, first_tok.col + 1)) if first_tok else ("<EOF>", g.eof_position(text)))
    ctx.sample({"ungrammatical": text[:300], "first_bad": expect}, limit=2)
    if exc is None:
        return ctx.violation("program-returned", "an ungrammatical text (%s) returned a program" % expect, witness)
    if not isinstance(exc, BlackbirdSyntaxError):
        return ctx.violation("wrong-exception:" + common.exc_key(exc), "ungrammatical text (%s) raised %s instead of BlackbirdSyntaxError" % (expect, common.exc_text(exc)), witness)
    if ncalls == 0:
        return ctx.violation("error-not-from-syntax-stage", "BlackbirdSyntaxError was raised but not by the syntax stage: %s" % common.exc_text(exc), witness)
    m = LINECOL.search(str(exc))
    if not m:
        return ctx.violation("no-position-in-message", "message lacks 'line L:C': %r" % str(exc)[:200], witness)
    L, C = int(m.group(1)), int(m.group(2))
    starts = {(t.line, t.col + 1): i for i, t in enumerate(toks)}
    el, ec = g.eof_position(text)
    starts.setdefault((el, ec + 1), len(toks))
    idx = starts.get((L, C))
    if idx is None:
        return ctx.violation("position-not-a-token-start", "reported position %d:%d is not the (1-based) start of a token or the EOF position; %s; message %r" % (L, C, expect, str(exc)[:160]), witness)
    if idx < bad:
        return ctx.violation("position-before-first-bad-token", "reported token #%d at %d:%d lies before the first bad token #%d (%s); message %r" % (idx, L, C, bad, expect, str(exc)[:160]), witness)
    ctx.observe("reported - first bad = %s" % (idx - bad if idx - bad < 3 else ">=3"))
    # the same text as an *included* file: what load() reads is the script and the
    # files it includes, so an ungrammatical include must end the same way
    # (position not compared: it refers to the included file)
    if encodable(text) and int(hashlib.sha1(text.encode()).hexdigest()[:2], 16) < 20:
        d = tempfile.mkdtemp(prefix="bbv-c10i-")
        try:
            with open(os.path.join(d, "inc.xbb"), "w", encoding="utf-8", newline="") as f:
                f.write(text)
            with open(os.path.join(d, "main.xbb"), "w", encoding="ascii", newline="") as f:
                f.write('name m\nversion 1.0\ninclude "inc.xbb"\n\nVac | 0\n')
            prog = exc = None
            try:
                prog = blackbird.load(os.path.join(d, "main.xbb"))
            except Exception as e:
                exc = e
        finally:
            shutil.rmtree(d, ignore_errors=True)
        ctx.case("include:" + text, True, tags=["via:include"])
        w2 = dict(witness, via_include=True)
        if exc is None:
            return ctx.violation("include:program-returned", "a script including an ungrammatical file (%s) returned a program" % expect, w2)
        if not isinstance(exc, BlackbirdSyntaxError):
            return ctx.violation("include:wrong-exception:" + common.exc_key(exc), "a script including an ungrammatical file (%s) raised %s instead of BlackbirdSyntaxError" % (expect, common.exc_text(exc)), w2)
        ctx.hook("ungrammatical include refused with BlackbirdSyntaxError")


def run(ctx):
    g = common.grammar()
    undo = install_hooks()
    samples = {}
    for nme in g.token_names:
        samples[nme] = g.sample_text(nme) or "$"
    samples["TAB"] = "    "
    samples["NAME"] = "foo"
    samples["DEVICE"] = "a.b"
    samples["ANY"] = "$"
    str_samples = ['""', '"s"', '"50%"', '"%d items"', '"%s"', '"{0}"', '"a b"', '"\\"', '"#"']
    bases = list(BASES) + [e["text"] for e in common.corpus(ID) if e.get("base")]
    if ctx.worker == 0:
        for e in common.corpus(ID):
            check_text(ctx, e["text"], tags=["corpus"], via_load=bool(e.get("via_load")))
        for b in bases:
            check_text(ctx, b, tags=["base"])
    total = ctx.share(BUDGET[ctx.tier])
    done = 0
    i = 0
    if ctx.tier == "thorough":
        # exhaustive single-token edits of the small hand-written bases, split round-robin
        k = 0
        for b in bases[1:]:
            toks = g.tokenize(b)
            for (kind, t) in all_mutants(g, b, toks, samples):
                if ctx.my(k):
                    check_text(ctx, t, tags=[kind, "exhaustive"], base=b)
                    done += 1
                k += 1
        ctx.observe("exhaustive single-token edits of %d small bases" % (len(bases) - 1))
    while done < total:
        rng = ctx.rng(i)
        i += 1
        c = rng.random()
        if c < 0.12:
            # token soup
            n = rng.randint(1, 25)
            text = " ".join(pick(rng, samples, g.token_names) for _ in range(n))
            check_text(ctx, text, tags=["soup:tokens"], via_load=rng.random() < 0.1 and encodable(text))
            done += 1
            continue
        if c < 0.2:
            alpha = g.alphabet() + list("é中π\U0001F600\xa0\x0c\x0b\u2028\u3000\x85")
            text = "".join(rng.choice(alpha) for _ in range(rng.randint(0, 40)))
            if rng.random() < 0.5:
                text = "name a\nversion 1.0\n" + text
            check_text(ctx, text, tags=["soup:chars"])
            done += 1
            continue
        if c < 0.55:
            base = rng.choice(bases)
        else:
            try:
                base, _ = gen.script(rng, g, n_stmts=(1, 6), params=0.1, regrefs=0.1, loops=0.4, layout=0.3)
            except RuntimeError:
                continue
        try:
            toks = g.tokenize(base)
        except ValueError:
            continue
        if not toks:
            continue
        for (kind, t) in mutants(rng, g, base, toks, samples, 6):
            check_text(ctx, t, tags=[kind], base=base, via_load=rng.random() < 0.1 and encodable(t))
            done += 1
            if rng.random() < 0.05:
                # an unusual character (byte-order mark, NUL, zero-width space, ...) as the very first character
                ch = rng.choice(FIRST_CHARS)
                t3 = ch + (base if rng.random() < 0.7 else t)
                check_text(ctx, t3, tags=["first-char:%04x" % ord(ch)], base=base, via_load=rng.random() < 0.6 and encodable(t3))
                done += 1
            if rng.random() < 0.08:
                # the same text with a uniform left margin of spaces on every line (1-3 and 5 spaces are skipped by the
                # lexer; exactly four are an indentation token)
                k_ = rng.choice([1, 2, 3, 5, 4])
                t2 = "\n".join((" " * k_ + ln) if ln.strip() else ln for ln in t.split("\n"))
                check_text(ctx, t2, tags=[kind, "margin:%d" % k_], base=base)
                done += 1
        if rng.random() < 0.25:
            # viable-continuation probes: after a prefix of a sentence, every token type the grammar allows next; the
            # parser must not report an error at that token (it is not the first token that makes the text ungrammatical)
            ok_b, _, _ = g.is_sentence(base)
            if ok_b and len(toks) > 3:
                k = rng.randrange(2, len(toks))
                prefix_types = [t.type for t in toks[:k]]
                prefix_text = base[: toks[k].pos]
                for nm in g.token_names:
                    if nm in ("SPACE", "COMMENT", "ANY"):
                        continue
                    acc, bad = g.recognize(prefix_types + [nm])
                    if bad is not None and bad <= k:
                        continue        # not a viable continuation
                    w = STR_SAMPLES[1] if nm == "STR" else samples[nm]
                    sep = "" if prefix_text.endswith(("\n", " ", "\t")) or nm in ("NEWLINE",) else " "
                    check_text(ctx, prefix_text + sep + w, tags=["probe:viable-continuation"], base=base)
                    done += 1
    undo()


def replay(w):
    class C:
        res = None

        def case(self, *a, **k):
            pass

        def sample(self, *a, **k):
            pass

        def observe(self, *a, **k):
            pass

        def hook(self, *a, **k):
            pass

        def violation(self, key, summary, witness):
            self.res = "%s: %s" % (key, summary)

    c = C()
    undo = install_hooks()
    check_text(c, w["text"], via_load=w.get("via_load", False))
    undo()
    return c.res
