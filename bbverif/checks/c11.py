"""C11 - ill-formed but grammatical programs are refused, never silently accepted.

Fault-injection monitor: one fault (class x syntactic slot) is injected into a
valid base script at a random statement position; the reference interpreter
confirms that the result is grammatical and ill-formed for exactly that reason;
the real ``loads``/``load`` must raise - for undefined and reserved names a
BlackbirdSyntaxError naming the identifier, its line and its column.
"""
import os
import re
import shutil
import tempfile

from .. import common, content, gen
from . import c07

ID = "C11"
LEVEL = "fault_enumeration"
TECHNIQUE = "runtime fault injection (fault class x syntactic slot x position) into generated valid scripts; the reference interpreter certifies each injected fault; monitor on the raised exception"
RULE = ("valid base scripts with exactly one injected fault: undefined name in {positional, keyword, list element, mode, array index, indexed name, "
        "loop list, metadata option, scalar initialiser, array element} inside/outside executed loop bodies; reserved names (qN, name, version, "
        "target, type) as scalar and array; modes of float/complex/str value (literal, variable, computed, array element); literal and computed "
        "complex values into int/float scalars and arrays; loop values not of the loop type; include calls with wrong mode count/keywords; "
        "every case certified ill-formed by the reference; non-trivial = all (each has >=1 preceding valid statement or declaration); distinct by SHA-1"
        '; undefined name that an included file declares')
BUDGET = {"quick": 6000, "thorough": 80000}
MIN_NONTRIVIAL = {"quick": 800, "thorough": 8000}
REQUIRED_FUNCTIONS = ["auxiliary.py:_expression", "listener.py:BlackbirdListener.exitExpressionvar", "listener.py:BlackbirdListener.exitArrayvar",
                      "listener.py:BlackbirdListener.exitStatement", "listener.py:BlackbirdListener.exitForloop"]
FUNCTIONS = REQUIRED_FUNCTIONS
ASSUMPTIONS = ["the reference interpreter certifies 'grammatical, ill-formed for the injected reason' (cases it does not certify are discarded and counted)",
               "column may be 0- or 1-based (the code base uses both conventions)"]

UNDEF_SLOTS = ["positional", "keyword", "list", "mode", "array-index", "indexed-name", "loop-list", "metadata-option", "scalar-init", "array-element",
               "in-loop-body", "inside-expression", "after-loop", "far-argument", "metadata-positional"]
FAULTS = (["undefined:" + s for s in UNDEF_SLOTS]
          + ["reserved:scalar", "reserved:array"]
          + ["mode:float-literal", "mode:complex-literal", "mode:float-variable", "mode:str-variable", "mode:computed-float", "mode:float-array-element", "mode:in-loop",
             "mode:in-range-loop"]
          + ["complex:int-scalar-literal", "complex:float-scalar-literal", "complex:float-scalar-computed", "complex:int-scalar-computed",
             "complex:float-array-literal", "complex:float-array-computed", "complex:int-array-computed", "complex:via-variable"]
          + ["complex:float-scalar-zero-imag", "complex:int-array-zero-imag", "complex:array-with-parameter-computed", "complex:array-to-real-scalar"]
          + ["looptype:str-in-int", "looptype:float-in-int", "looptype:str-in-float", "looptype:int-in-str", "looptype:near-integer-in-int",
             "looptype:complex-literal", "looptype:complex-computed", "looptype:complex-zero-imag"]
          + ["include:arity", "include:keywords", "undefined:name-declared-in-included-file"])
REQUIRED_TAGS = ["fault:" + f for f in FAULTS]
EXPECT = {"undefined": "undefined", "reserved": "reserved-name", "mode": "mode-type", "complex": "complex-to-real", "looptype": "loop-type"}


def safe_positions(lines, start):
    """Indices i such that a new top-level line may be inserted before lines[i]."""
    out = []
    for i in range(start, len(lines) + 1):
        nxt = lines[i] if i < len(lines) else ""
        if nxt.startswith(("    ", "\t")):
            continue
        out.append(i)
    return out


def base_script(rng, g):
    text, info = gen.script(rng, g, n_stmts=(2, 8), params=0.0, regrefs=0.0, loops=0.3, arrays=0.5, layout=0.0, options=0.0, funcs=False)
    G = info["gen"]
    lines = text.rstrip("\n").split("\n")
    return lines, G


def inject(rng, g, fault):
    """Returns (text, expected ill-formed kind, identifier or None, line number of the fault (1-based), column 0-based) or None."""
    lines, G = base_script(rng, g)
    cls, slot = fault.split(":")
    u = None
    for _ in range(50):
        cand = G.ident()
        if not re.search(r"\b%s\b" % re.escape(cand), "\n".join(lines)):
            u = cand
            break
    if u is None:
        return None
    meta_end = 2
    pos = safe_positions(lines, meta_end + 1)
    if not pos:
        return None
    at = rng.choice(pos)
    ints = [n for n, t in G.scalars.items() if t == "int"]
    new = None
    ident = None
    col = None
    if cls == "undefined":
        ident = u
        if slot == "positional":
            new = "G(%s) | 0" % u
        elif slot == "keyword":
            new = "G(1, k=%s) | 0" % u
        elif slot == "list":
            new = "G(k=[1, %s, 2]) | 0" % u
        elif slot == "mode":
            new = "G(1) | [0, %s]" % u
        elif slot == "array-index":
            arrs = [n for n, t in G.arrays.items() if not t[3]]
            if not arrs:
                lines.insert(at, "int array ZA =\n    1, 2, 3")
                at += 1
                arrs = ["ZA"]
            new = "G(%s[%s]) | 0" % (rng.choice(arrs), u)
        elif slot == "indexed-name":
            new = "G(%s[0]) | 0" % u
        elif slot == "loop-list":
            new = "for int %s in [1, %s]\n    G | 0" % (G.ident(), u)
        elif slot == "metadata-option":
            lines.insert(2, "target dev (shots=%s)" % u)
            text = "\n".join(lines) + "\n"
            return text, "undefined", ident, 3, lines[2].index(u + ")")
        elif slot == "metadata-positional":
            # positional options are ignored (with a warning) but they are evaluated: an undefined name in one is still an error
            line_ = rng.choice(["target dev (%s)", "target dev (2*%s, cutoff=10)", "type tdm (%s, temporal_modes=3)", "target dev (1, %s)"]) % u
            lines.insert(2, line_)
            text = "\n".join(lines) + "\n"
            return text, "undefined", ident, 3, lines[2].index(u)
        elif slot == "scalar-init":
            new = "float %s = 1 + %s" % (G.ident(), u)
        elif slot == "array-element":
            new = "float array %s =\n    1, %s" % (G.ident(), u)
        elif slot == "in-loop-body":
            new = "for int %s in 1:3\n    H | 0\n    G(%s) | 1" % (G.ident(), u)
        elif slot == "inside-expression":
            new = "G(2*(1 + sin(%s))/3) | 0" % u
        elif slot == "after-loop":
            # the variable of a loop that has finished is not defined any more
            use = rng.choice(["G(%s) | 0", "G | %s", "G(k=%s) | 1", "float zz_9 = %s + 1", "G(k=[1, %s]) | 0"]) % u
            new = "for %s %s in %s\n    H | 0\n%s" % (rng.choice(["int", "float"]), u, rng.choice(["0:3", "[1, 2]", "2:3"]), use)
        elif slot == "far-argument":
            new = "G(%s, %s, k1=1, k2=[1, 2, 3, 4, 5, 6, 7, 8, 9, 10, 11, %s]) | 0" % (", ".join(str(i) for i in range(12)), "1", u)
    elif cls == "reserved":
        ident = rng.choice(["q0", "q12", "name", "version", "target", "type"])
        if slot == "scalar":
            new = "%s %s = 1" % (rng.choice(["int", "float", "complex"]), ident)
        else:
            new = "%s array %s =\n    1, 2" % (rng.choice(["int", "float"]), ident)
    elif cls == "mode":
        if slot == "float-literal":
            new = "G(1) | %s" % rng.choice(["1.0", "[0, 2.5]", "1e0", "(3.0)"])
        elif slot == "complex-literal":
            new = "G | %s" % rng.choice(["1j", "[0, 1+0j]", "2+2j"])
        elif slot == "float-variable":
            new = "float %s = 2\nG | %s" % (u, u)
        elif slot == "str-variable":
            new = 'str %s = "1"\nG | [0, %s]' % (u, u)
        elif slot == "computed-float":
            new = "G | %s" % rng.choice(["2/2", "[0, 4/2]", "1*1.0", "sqrt(4)", "2**0.5"])
        elif slot == "float-array-element":
            new = "float array %s =\n    1, 2\nG | %s[0]" % (u, u)
        elif slot == "in-loop":
            new = "for float %s in [1, 2]\n    G | %s" % (u, u)
        elif slot == "in-range-loop":
            new = "for float %s in %s\n    H(1) | 0\n    G | %s" % (u, rng.choice(["0:3", "1:2", "2:9:3"]), rng.choice([u, "[0, %s]" % u]))
    elif cls == "complex":
        nm = u
        if slot == "int-scalar-literal":
            new = "int %s = %s" % (nm, rng.choice(["1+2j", "2j", "3-1j"]))
        elif slot == "float-scalar-literal":
            new = "float %s = %s" % (nm, rng.choice(["1+2j", "2j", "0.5-1j"]))
        elif slot == "float-scalar-computed":
            new = "float %s = %s" % (nm, rng.choice(["(1+2j)*2", "2j + 1", "1j**3", "3 - 2j*2", "(1+1j)/2"]))
        elif slot == "int-scalar-computed":
            new = "int %s = %s" % (nm, rng.choice(["(1+2j)*2", "2j + 1", "2*1j"]))
        elif slot == "float-array-literal":
            new = "float array %s =\n    1, 2\n    1+2j, 3" % nm
        elif slot == "float-array-computed":
            new = "float array %s =\n    1, (1+2j)*2" % nm
        elif slot == "int-array-computed":
            new = "int array %s =\n    1, 2\n    3, 2j*2" % nm
        elif slot == "float-scalar-zero-imag":
            # complex-typed values whose imaginary part happens to be zero
            new = "%s %s = %s" % (rng.choice(["float", "int"]), nm, rng.choice(["1j*1j", "(2+1j)*(2-1j)", "(1+2j) - 2j", "1j**2", "2j/1j", "(3+0j)*2"]))
        elif slot == "int-array-zero-imag":
            new = "%s array %s =\n    1, %s" % (rng.choice(["float", "int"]), nm, rng.choice(["1j*1j", "(2+1j)*(2-1j)", "1j**2", "(1+2j) - 2j"]))
        elif slot == "array-with-parameter-computed":
            # a bare template parameter next to a computed complex value (the array is stored with object dtype)
            cv = rng.choice(["1j*1j", "(1+2j)*2", "2j + 1", "1j**2", "(2+1j)*(2-1j)"])
            pn = G.ident()
            body = rng.choice(["{%s}, %s" % (pn, cv), "%s, {%s}" % (cv, pn), "1, {%s}\n    %s, 2" % (pn, cv)])
            new = "%s array %s =\n    %s" % (rng.choice(["float", "int"]), nm, body)
        elif slot == "array-to-real-scalar":
            # a whole complex array as initialiser of an int or float variable
            new = "complex array %s =\n    %s\n%s %s = %s" % (nm, rng.choice(["1j, 2", "1+2j, 3\n    0.5, 2j", "2, 3-1j"]), rng.choice(["int", "float"]), G.ident(), nm)
        elif slot == "via-variable":
            new = "complex %s = 1+1j\n%s %s = %s*1" % (nm, rng.choice(["int", "float"]), G.ident(), nm)
    elif cls == "looptype":
        v = u
        if slot == "str-in-int":
            new = 'for int %s in [1, "a"]\n    G | 0' % v
        elif slot == "float-in-int":
            new = "for int %s in [1, 2.5]\n    G | 0" % v
        elif slot == "str-in-float":
            new = 'for float %s in ["x", 0.5]\n    G(%s) | 0' % (v, v)
        elif slot == "int-in-str":
            new = 'for str %s in "a", 3\n    G(%s) | 0' % (v, v)
        elif slot == "complex-literal":
            new = "for %s %s in [%s]\n    G(%s) | 0" % (rng.choice(["int", "float"]), v, rng.choice(["1, 1+2j", "2j", "3, 0.5-1j, 2", "1+0j"]), v)
        elif slot == "complex-computed":
            new = "for %s %s in [%s]\n    G(%s) | 0" % (rng.choice(["int", "float"]), v, rng.choice(["1, (1+2j)*2", "2j*2", "3, 2j + 1", "1j**3, 2"]), v)
        elif slot == "complex-zero-imag":
            # complex-typed values whose imaginary part happens to be zero
            new = "for %s %s in [%s]\n    G(%s) | 0" % (rng.choice(["int", "float"]), v, rng.choice(["1j*1j", "2, 1j*1j", "(2+1j)*(2-1j), 1", "1j**2", "(1+2j) - 2j", "2j/1j, 3"]), v)
        elif slot == "near-integer-in-int":
            new = "for int %s in [3, %s]\n    G | 0" % (v, rng.choice(["250.001", "7000.02", "160001/4", "100000.5", "1e9 + 0.5", "2.0000001"]))
    if new is None:
        return None
    ins = new.split("\n")
    lines[at:at] = ins
    text = "\n".join(lines) + "\n"
    fl = None
    if ident is not None:
        for k, ln in enumerate(ins):
            m = re.search(r"(?<![\w])%s(?![\w])" % re.escape(ident), ln)
            if m:
                fl = at + k + 1
                col = m.start()
    return text, EXPECT[cls], ident, fl, col


def check_case(ctx, text, fault, expect_kind, ident, line, col, loader=None, witness=None):
    from blackbird.error import BlackbirdSyntaxError

    witness = witness or {"text": text, "fault": fault}
    if loader is None:
        kind = common.classify(text)
        if kind[0] != "ill" or kind[1].kind != expect_kind or (ident is not None and kind[1].name != ident):
            return ctx.out_of_domain("not certified by the reference (%s)" % (kind[0] if kind[0] != "ill" else kind[1].kind))
        e = kind[1]
        if ident is not None and e.line is not None:
            line, col = e.line, e.col
        prog, exc = common.real_loads(text)
    else:
        prog, exc = loader()
    ctx.case(text, True, tags=["fault:" + fault, "class:" + fault.split(":")[0]])
    ctx.sample({"fault": fault, "script": text}, limit=2)
    if exc is None:
        return ctx.violation("accepted:" + fault, "script with injected fault %s returned a program: operations %s, variables %s" % (
            fault, [content.show(o, 80) for o in prog.operations][-3:], {k: content.show(v, 60) for k, v in list(prog.variables.items())[-3:]}), witness)
    ctx.observe("%s -> %s" % (fault.split(":")[0], type(exc).__name__))
    if fault.split(":")[0] in ("undefined", "reserved"):
        if not isinstance(exc, BlackbirdSyntaxError):
            return ctx.violation("wrong-exception:%s:%s" % (fault.split(":")[0], common.exc_key(exc)), "fault %s raised %s instead of BlackbirdSyntaxError" % (fault, common.exc_text(exc)), witness)
        msg = str(exc)
        if not re.search(r"(?<![\w])%s(?![\w])" % re.escape(ident), msg):
            return ctx.violation("message-lacks-identifier:" + fault.split(":")[0], "message %r does not name %r" % (msg[:200], ident), witness)
        m = re.search(r"line (\d+):(\d+)", msg)
        if not m:
            return ctx.violation("message-lacks-position:" + fault.split(":")[0], "message %r has no line:column" % msg[:200], witness)
        L, C = int(m.group(1)), int(m.group(2))
        if L != line or C not in (col, col + 1):
            return ctx.violation("wrong-position:" + fault.split(":")[0], "message %r points at %d:%d, the identifier %r is at line %d, column %d (0-based)" % (msg[:160], L, C, ident, line, col), witness)


def include_case(ctx, rng, g, fault):
    try:
        files, main_path, info = c07.build(rng, g)
    except RuntimeError:
        return ctx.out_of_domain("include generator gave up")
    if rng.random() < 0.4:
        return stale_library_case(ctx, rng, files, main_path, info, fault)
    for _ in range(8):
        nv = c07.negative_variant(rng, files, main_path, info)
        if nv and nv[1] == ("neg:arity" if fault == "include:arity" else "neg:keywords"):
            break
    else:
        return ctx.out_of_domain("no include fault of the wanted kind")
    files2 = nv[0]
    root = os.path.realpath(tempfile.mkdtemp(prefix="bbv-c11-"))
    try:
        c07.materialise(root, files2)
        k = c07.ref_of(files2, main_path, root)
        if k[0] != "ill" or not k[1].kind.startswith("include-"):
            return ctx.out_of_domain("include fault not certified by the reference")

        def loader():
            import blackbird

            try:
                return blackbird.load(os.path.join(root, main_path)), None
            except Exception as e:
                return None, e

        check_case(ctx, repr(sorted(files2.items())), fault, None, None, None, None, loader=loader, witness={"files": files2, "main": main_path, "fault": fault})
    finally:
        shutil.rmtree(root, ignore_errors=True)


def stale_library_case(ctx, rng, files, main_path, info, fault):
    """The call is left alone and the *included file* is changed so that the call no longer fits it (one more mode / a
    parameter under another name).  The unchanged tree is loaded first, from the same paths: what an earlier load saw of a
    file must not decide whether a later call is accepted."""
    main_dir = os.path.dirname(main_path)
    direct = [s_ for s_ in info["subs"] if isinstance(files.get(os.path.normpath(os.path.join(main_dir, s_[1]))), str)
              and re.search(r"(?m)^%s[ (]" % re.escape(s_[0]), files[main_path])]
    if fault == "include:keywords":
        direct = [s_ for s_ in direct if s_[3]]
    if not direct:
        return ctx.out_of_domain("no directly called sub-program to change")
    name, rel, nmodes, params, depth = rng.choice(direct)
    lib = os.path.normpath(os.path.join(main_dir, rel))
    text = files[lib]
    if fault == "include:arity":
        changed = text.rstrip("\n") + "\nExtraMode | 119\n" if rng.random() < 0.6 else text
        if changed is text:
            return ctx.out_of_domain("no directly called sub-program to change")
    else:
        pn = rng.choice(params)
        changed = text.replace("{%s}" % pn, "{%s_renamed}" % pn)
    files2 = dict(files)
    files2[lib] = changed
    root = os.path.realpath(tempfile.mkdtemp(prefix="bbv-c11-"))
    try:
        c07.materialise(root, files2)
        k = c07.ref_of(files2, main_path, root)
        if k[0] != "ill" or not k[1].kind.startswith("include-"):
            return ctx.out_of_domain("include fault not certified by the reference")
        c07.materialise(root, files)
        import blackbird

        try:
            blackbird.load(os.path.join(root, main_path))
            ctx.observe("stale-library: first load of the fitting tree succeeded")
        except Exception:
            ctx.observe("stale-library: first load of the fitting tree raised")
        c07.materialise(root, files2)

        def loader():
            try:
                return blackbird.load(os.path.join(root, main_path)), None
            except Exception as e:
                return None, e

        check_case(ctx, repr(sorted(files2.items())) + "/stale", fault, None, None, None, None, loader=loader,
                   witness={"files": files2, "files_loaded_first": files, "main": main_path, "fault": fault})
        ctx.tags["include-file-changed-between-loads"] += 1
    finally:
        shutil.rmtree(root, ignore_errors=True)


def included_name_case(ctx, rng, g):
    """The name is declared by an included file (possibly one that file includes in turn) and used, undeclared, by the
    including script: variables of an included program are its own, the including script uses a name before it is defined."""
    G = gen.Gen(rng, g, layout=0.0)
    nm, sub, sub2 = G.ident(), G.ident(), G.ident()
    decl = rng.choice(["float %s = 0.3", "int %s = 2", "complex %s = 1+2j", "float array %s =\n    1, 2", "str %s = \"s\""]) % nm
    files = {"lib/inc.xbb": "name %s\nversion 1.0\n\n%s\nSgate(0.5) | 3\nBSgate | [3, 5]\n" % (sub, decl)}
    inc_line = 'include "lib/inc.xbb"'
    if rng.random() < 0.3:
        files["lib/deep.xbb"] = files["lib/inc.xbb"].replace("name " + sub, "name " + sub2)
        files["lib/inc.xbb"] = "name %s\nversion 1.0\ninclude \"deep.xbb\"\n\nSgate(0.5) | 3\n%s | [3, 5]\n" % (sub, sub2)
    body = []
    if rng.random() < 0.6:
        body.append("%s | [%d, %d]" % (sub, rng.randint(0, 4), rng.randint(5, 9)))
    if rng.random() < 0.4:
        body.append("float other_%s = 1.5" % nm[:3])
    use = rng.choice(["G(%s) | 0", "G(1, k=%s) | 0", "G(k=[1, %s]) | 0", "G(2*%s + 1) | 0", "G | %s", "float zz = %s"]) % nm
    body.append(use)
    if rng.random() < 0.5:
        body.append("Vac | 1")
    head = ["name m_%s" % nm[:4], "version 1.0", inc_line, ""]
    files["main.xbb"] = "\n".join(head + body) + "\n"
    line = len(head) + len(body) - (1 if body[-1] == "Vac | 1" else 0)
    col = use.index(nm) if not use.startswith("G(2*") else use.index(nm)
    root = os.path.realpath(tempfile.mkdtemp(prefix="bbv-c11n-"))
    try:
        c07.materialise(root, files)
        k = c07.ref_of(files, "main.xbb", root)
        if k[0] != "ill" or k[1].kind != "undefined" or k[1].name != nm:
            return ctx.out_of_domain("included-name fault not certified by the reference (%s)" % (k[0] if k[0] != "ill" else k[1].kind))
        if k[1].line is not None:
            line, col = k[1].line, k[1].col

        def loader():
            import blackbird

            try:
                return blackbird.load(os.path.join(root, "main.xbb")), None
            except Exception as e:
                return None, e

        check_case(ctx, repr(sorted(files.items())), "undefined:name-declared-in-included-file", "undefined", nm, line, col, loader=loader,
                   witness={"files": files, "main": "main.xbb", "fault": "undefined:name-declared-in-included-file"})
    finally:
        shutil.rmtree(root, ignore_errors=True)


def run(ctx):
    g = common.grammar()
    if ctx.worker == 0:
        for e in common.corpus(ID):
            check_case(ctx, e["text"], e["fault"], e["kind"], e.get("ident"), e.get("line"), e.get("col"))
    n = ctx.share(BUDGET[ctx.tier])
    for i in range(n):
        rng = ctx.rng(i)
        fault = FAULTS[(i * ctx.nworkers + ctx.worker) % len(FAULTS)] if rng.random() < 0.5 else rng.choice(FAULTS)
        if fault == "undefined:name-declared-in-included-file":
            if rng.random() < 0.5:
                included_name_case(ctx, rng, g)
            else:
                ctx.out_of_domain("include fault skipped (cost)")
            continue
        if fault.startswith("include:"):
            if rng.random() < 0.7:
                include_case(ctx, rng, g, fault)
            else:
                ctx.out_of_domain("include fault skipped (cost)")
            continue
        try:
            r = inject(rng, g, fault)
        except RuntimeError:
            r = None
        if r is None:
            ctx.out_of_domain("injection not possible in this base")
            continue
        text, kind, ident, line, col = r
        check_case(ctx, text, fault, kind, ident, line, col)


def replay(w):
    class C:
        res = None

        def out_of_domain(self, r):
            pass

        def case(self, *a, **k):
            pass

        def sample(self, *a, **k):
            pass

        def observe(self, *a, **k):
            pass

        def violation(self, key, summary, witness):
            self.res = "%s: %s" % (key, summary)

    c = C()
    if "files" in w:
        root = os.path.realpath(tempfile.mkdtemp(prefix="bbv-c11-"))
        try:
            c07.materialise(root, w["files"])

            def loader():
                import blackbird

                try:
                    return blackbird.load(os.path.join(root, w["main"])), None
                except Exception as e:
                    return None, e

            check_case(c, "", w["fault"], None, None, None, None, loader=loader, witness=w)
        finally:
            shutil.rmtree(root, ignore_errors=True)
        return c.res
    cls = w["fault"].split(":")[0]
    kind = common.classify(w["text"])
    ident = kind[1].name if kind[0] == "ill" else None
    check_case(c, w["text"], w["fault"], EXPECT[cls], ident if cls in ("undefined", "reserved") else None, None, None)
    return c.res
