"""C15 - TDM programs pass p-arrays by name and keep their data.

Reference-model monitor (refsem in tdm mode) on the loaded program, with
non-tdm control scripts, plus the dumps/loads round trip with exact comparison
of the p-arrays, the references to them and the operations.
"""
import re

import numpy as np

from .. import common, content, gen
from . import c01

ID = "C15"
LEVEL = "exploration"
TECHNIQUE = "runtime reference-model monitor for tdm scripts with non-tdm controls, plus metamorphic dumps/loads round trip with exact p-array comparison"
RULE = ("tdm scripts with 1-6 int/float/complex p-arrays (p0, p7, p42 ...; 1 x n and r x c) used positionally and by keyword, next to ordinary "
        "scalars of every type, ordinary arrays (also named P0, pa, q), template parameters and loops; each script also without 'type tdm' as a "
        "control; 3 generations of dumps/loads; non-trivial = >=2 p-arrays, one used by keyword or inside a loop, next to an ordinary variable; "
        "distinct by SHA-1 of the text")
BUDGET = {"quick": 3000, "thorough": 40000}
MIN_NONTRIVIAL = {"quick": 300, "thorough": 3000}
REQUIRED_FUNCTIONS = ["listener.py:BlackbirdListener.exitArrayvar", "auxiliary.py:_expression", "program.py:BlackbirdProgram.serialize", "listener.py:is_ptype"]
FUNCTIONS = REQUIRED_FUNCTIONS
REQUIRED_TAGS = ["tdm", "control", "parray:int", "parray:float", "parray:complex", "parray:keyword", "parray:in-loop", "with:template-parameter", "with:ordinary-array", "with:scalar", "parray:long", "parray:whole-array-parameter", "ordinary-array-named-like-hoisted", "parray:declared-again"]
ASSUMPTIONS = ["tdm rule of the reference: an array named p<digits> used as a whole argument denotes its name (DESIGN Appendix A rule 12)"]


def build(rng, g, tdm=True):
    G = gen.Gen(rng, g, tdm=tdm, params=rng.choice([0.0, 0.0, 0.15]), regrefs=0.0, loops=0.0, layout=0.1, hostile_names=0.3, funcs=False, arrays=0.5)
    tags = set()
    lines = ["name " + G.ident(), "version 1.0"]
    if rng.random() < 0.4:
        lines.append("target " + rng.choice(["TD2", "borealis", "dev"]) + rng.choice(["", " (shots=5)"]))
    lines.append("type tdm (temporal_modes=%d%s)" % (rng.randint(1, 4), rng.choice(["", ", copies=2", ", shots=10"])))
    lines.append("")
    pnames = rng.sample(["p0", "p1", "p2", "p3", "p7", "p42", "p007", "p10", "p100", "p255", "p9", "p11", "p65535", "p00"], rng.choice([1, 2, 3, 4, 5, 6, 6, 9, 12]))
    decls = []
    for pn in pnames:
        vt = rng.choice(["int", "float", "float", "complex"])
        rows = rng.choice([1, 1, 1, 2, 3])
        cols = rng.randint(1, 6)
        if rng.random() < 0.04 and vt != "int":
            # the hardware-template form: the whole p-array is one template parameter with a declared shape
            rows, cols = rng.choice([(1, 2), (1, 3), (2, 2), (1, 5)])
            wp = rng.choice(["rs", "phases", "arr%d" % rng.randint(0, 9), "U"])
            t = "%s array %s[%d, %d] =\n    {%s}" % (vt, pn, rows, cols, wp)
            if G.feed(t) and pn in G.it.env:
                G.arrays[pn] = (vt, rows, cols, True)
                tags.add("parray:whole-array-parameter")
            else:
                t = None
        elif rng.random() < 0.12:
            # a long p-array written with full-precision values (now and then more than a thousand elements)
            rows, cols = 1, rng.choice([12, 20, 40] + ([1001, 1500] if rng.random() < 0.15 else []))
            els = [repr(rng.uniform(-3, 3)) if vt != "int" else str(rng.randint(0, 10 ** 9)) for _ in range(cols)]
            if vt == "complex":
                els = ["%r%+rj" % (rng.uniform(-3, 3), rng.uniform(-3, 3)) for _ in range(cols)]
            t = "%s array %s =\n    %s" % (vt, pn, ", ".join(els))
            if G.feed(t) and pn in G.it.env:
                G.arrays[pn] = (vt, rows, cols, False)
                tags.add("parray:long")
            else:
                t = None
        else:
            t = G.decl_array(vartype=vt, rows=rows, cols=cols, name=pn, param_p=0.0)
        if t:
            decls.append(t)
            tags.add("parray:" + vt)
    for _ in range(rng.choice([0, 1, 2, 3])):
        t = G.decl_scalar()
        if t:
            decls.append(t)
            tags.add("with:scalar")
    hoisted_like = rng.random() < 0.12
    for _ in range(rng.choice([0, 0, 1, 2]) if not hoisted_like else rng.choice([2, 3])):
        if hoisted_like:
            # ordinary arrays named like the names the serialiser invents for arrays passed by value
            nm_ = rng.choice([n_ for n_ in ("A0", "A1", "A2", "A3") if n_ not in G.used] or [None])
            if nm_:
                G.used.add(nm_)
            t = G.decl_array(name=nm_, param_p=0.0)
            if t:
                decls.append(t)
                tags.add("with:ordinary-array")
                tags.add("ordinary-array-named-like-hoisted")
            continue
        t = G.decl_array(name=rng.choice([None, "P0", "pa", "q", "p_1", "pp1", "p0_left", "p1a", "p12x", "p3_", "p", "p0p", "p1_0", "p10_2", "p0_0", "p1_000", "p1e3", "p0x1", "p00a"]) if rng.random() < 0.5 else None, param_p=0.0)
        if t:
            decls.append(t)
            tags.add("with:ordinary-array")
    # declaration order is kept: initialisers may refer to earlier variables
    for d in decls:
        lines.extend(d.split("\n"))
    declared_p = [pn for pn in pnames if pn in G.arrays]
    if not declared_p:
        raise RuntimeError("no p-array")
    stmts = []
    for _ in range(rng.randint(2, 7)):
        args = []
        kws = []
        for _ in range(rng.choice([0, 1, 1, 2])):
            c = rng.random()
            if c < 0.5:
                args.append(rng.choice(declared_p))
            else:
                args.append(G.value_text(depth=1))
        ordinary = [n_ for n_ in G.arrays if n_ not in declared_p]
        for _ in range(rng.choice([0, 0, 1, 2]) + (2 if hoisted_like else 0)):
            k = G.ident(fresh=False)
            c = rng.random()
            if c < 0.4:
                kws.append("%s=%s" % (k, rng.choice(declared_p)))
                tags.add("parray:keyword")
            elif c < 0.6 and ordinary:
                # an ordinary array passed by value in keyword position
                kws.append("%s=%s" % (k, rng.choice(ordinary)))
            else:
                kws.append("%s=%s" % (k, G.value_text(depth=1)))
        al = "(" + ", ".join(args + kws) + ")" if (args or kws or rng.random() < 0.5) else ""
        stmts.append(G.opname() + al + " | " + G.modes_text(G.pick_modes(2)))
    if rng.random() < 0.25 and len(stmts) >= 2:
        # a p-array declared a second time between the statements (new values for the later operations): it is still a
        # p-array and is still passed by its name afterwards
        pn = rng.choice(declared_p)
        vt = rng.choice(["float", "int", "complex"])
        ncol = rng.randint(1, 5)
        vals = {"float": ["0.5", "1.25", "-3.0", "2e-3", "7"], "int": ["1", "-2", "30", "4"], "complex": ["1+2j", "0.5", "3j", "2-0.5j"]}[vt]
        decl = "%s array %s =\n    %s" % (vt, pn, ", ".join(rng.choice(vals) for _ in range(ncol)))
        at = rng.randint(1, len(stmts) - 1)
        stmts.insert(at, decl)
        stmts.insert(at + 1, "Again(%s, k=%s) | %s" % (pn, rng.choice(declared_p), G.modes_text(G.pick_modes(1))))
        tags.add("parray:declared-again")
    if rng.random() < 0.4:
        v = G.ident()
        stmts.append("for int %s in 0:%d" % (v, rng.randint(1, 3)))
        stmts.append("    Sgate(%s, %s) | %s" % (rng.choice(declared_p), v, v))
        if rng.random() < 0.5:
            stmts.append("    Rgate(k=%s) | [%s, 9]" % (rng.choice(declared_p), v))
        tags.add("parray:in-loop")
    if G.params:
        tags.add("with:template-parameter")
    lines.extend(stmts)
    return "\n".join(lines) + "\n", tags, declared_p


def check_loaded(ctx, text, tags, declared_p, control=False):
    kind = common.classify(text)
    witness = {"text": text}
    if kind[0] == "ood":
        return ctx.out_of_domain(kind[1].split(" (")[0])
    if kind[0] in ("nosentence", "ill"):
        return ctx.out_of_domain("generator produced an invalid script (%s)" % kind[0])
    if kind[0] == "refbug":
        return ctx.violation("machinery:refbug", kind[1], witness)
    ref = kind[1]
    feats = set(tags) | ({"control"} if control else {"tdm"})
    uses = sum(1 for o in ref.ops for a in list(o.args or []) + [v for _, v in (o.kwargs or [])] if type(a).__name__ == "PName")
    nt = (not control) and len(declared_p) >= 2 and ("parray:keyword" in tags or "parray:in-loop" in tags) and ("with:scalar" in tags or "with:ordinary-array" in tags) and uses >= 1
    ctx.case(text, nt, tags=sorted(feats))
    ctx.sample({"script": text}, limit=1)
    P, exc = common.real_loads(text)
    if exc is not None:
        return ctx.violation("raises:" + common.exc_key(exc), "loads() raised %s" % common.exc_text(exc), witness)
    c = content.program_content(P)
    d = content.diff_ref(ref, c, variables=True, seed="C15")
    if d:
        return ctx.violation(("control:" if control else "") + common.diff_key(d), common.diff_text(d), witness)
    want = set(ref.param_names())
    if set(P.parameters) != want:
        return ctx.violation("parameters-reported", "parameters %s, written %s" % (sorted(P.parameters), sorted(want)), witness)
    if bool(P.is_template()) != bool(want):
        return ctx.violation("is-template", "is_template()=%s but written parameters are %s" % (P.is_template(), sorted(want)), witness)
    if control:
        return
    # a program keeps its p-arrays when other scripts are loaded afterwards
    keep = getattr(ctx, "_c15_prev", None)
    if keep is not None:
        (pp, dig, txt) = keep
        now = content.content_jsonable(content.program_content(pp), with_vars=True)
        if now != dig:
            ctx._c15_prev = None
            return ctx.violation("earlier-program-changed-by-later-load", "the variables/operations of a tdm program loaded earlier changed when the next script was loaded", {"text": txt, "then": text})
    try:
        ctx._c15_prev = (P, content.content_jsonable(c, with_vars=True), text)
    except AttributeError:
        pass
    # round trip: p-arrays, references, operations
    import blackbird

    g = common.grammar()
    prev, cprev = P, c
    cfg = content.Cfg(numbers="exact", sym_rtol=1e-9, seed="C15")
    for n in range(1, 4):
        try:
            t = blackbird.dumps(prev)
        except Exception as e:
            if c01.has_symbolic_array(cprev):
                return ctx.out_of_domain("array with parameter elements cannot be serialised (C01's known finding)")
            return ctx.violation("dumps-raises:" + common.exc_key(e), "generation %d: dumps() raised %s" % (n, common.exc_text(e)), witness)
        ok, bad, toks = g.is_sentence(t)
        nxt, exc = common.real_loads(t)
        if exc is not None:
            return ctx.violation("reload-raises:" + common.exc_key(exc), "generation %d: loads(dumps(P)) raised %s%s; text=%r" % (n, common.exc_text(exc), "" if ok else " (not a sentence)", t[:500]), witness)
        cn = content.program_content(nxt)
        d = content.diff_real(cprev, cn, cfg, skip=("parameters",) if False else ())
        if d:
            only_params = all(x[0] in ("parameters", "is_template") for x in d)
            if only_params and not (set(cprev["parameters"]) - set(cn["parameters"])) & c01.symbols_in_operations(cprev):
                ctx.observe("parameter only in variables lost (C01's known finding)")
            else:
                return ctx.violation("roundtrip:" + common.diff_key(d), "generation %d vs %d: %s; text=%r" % (n, n + 1, common.diff_text(d), t[:500]), witness)
        for pn in declared_p:
            a = cprev["variables"].get(pn)
            b = cn["variables"].get(pn)
            if not isinstance(b, np.ndarray):
                return ctx.violation("roundtrip:p-array-lost", "generation %d: p-array %s is missing after reload" % (n, pn), witness)
            dd = []
            content.diff_values(a, b, "variables." + pn, cfg, dd)
            if dd:
                return ctx.violation("roundtrip:p-array-changed", "generation %d: %s" % (n, common.diff_text(dd)), witness)
        prev, cprev = nxt, cn


def run(ctx):
    g = common.grammar()
    if ctx.worker == 0:
        for e in common.corpus(ID):
            check_loaded(ctx, e["text"], set(e.get("tags", ["corpus"])), e["parrays"])
    n = ctx.share(BUDGET[ctx.tier])
    for i in range(n):
        rng = ctx.rng(i)
        try:
            text, tags, declared_p = build(rng, g)
        except RuntimeError:
            ctx.out_of_domain("generator gave up")
            continue
        check_loaded(ctx, text, tags, declared_p)
        if rng.random() < 0.3:
            control = re.sub(r"^type tdm.*\n", "", text, flags=re.M)
            check_loaded(ctx, control, tags, declared_p, control=True)


def replay(w):
    class C:
        res = None

        def out_of_domain(self, r):
            pass

        def case(self, *a, **k):
            pass

        def sample(self, *a, **k):
            pass

        def observe(self, *a, **k):
            pass

        def violation(self, key, summary, witness):
            self.res = "%s: %s" % (key, summary)

    c = C()
    ps = sorted(set(re.findall(r"array (p\d+)", w["text"])))
    check_loaded(c, w["text"], set(), ps, control="type tdm" not in w["text"])
    return c.res
