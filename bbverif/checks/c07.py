"""C07 - calling an included program equals inlining it with renamed modes.

Reference-model monitor over generated directory trees: the reference
interpreter inlines (virtual file system = the generated tree); the real
``load()`` reads the files from a fresh temporary directory under several
process working directories and path spellings.
"""
import os
import shutil
import tempfile

from .. import common, content, gen, refsem
from ..refnum import OOD

ID = "C07"
LEVEL = "exploration"
TECHNIQUE = "runtime reference-model monitor over generated include trees on disk; configuration sweep over working directories and path spellings"
RULE = ("a temporary tree per case: sub-programs on non-contiguous mode sets in arbitrary statement order, with and without parameters, nested "
        "includes to depth 4, sub-directories, repeated include lines (same and absolute+relative spelling); a main script calling each "
        "subroutine 1-4 times; load() with absolute and relative paths under 4 working directories; negative calls (arity, keywords); "
        "non-trivial = a subroutine applied >=2 times, or nesting depth >=2, or a subroutine on >=3 non-contiguous modes; distinct by SHA-1 of the tree"
        '; a fifth of the trees are first loaded with a faulty included file, which is then corrected')
BUDGET = {"quick": 1200, "thorough": 16000}
MIN_NONTRIVIAL = {"quick": 200, "thorough": 2000}
REQUIRED_FUNCTIONS = ["listener.py:BlackbirdListener.exitInclude", "listener.py:BlackbirdListener.exitStatement", "__init__.py:load"]
FUNCTIONS = REQUIRED_FUNCTIONS + ["program.py:BlackbirdProgram.__call__"]
REQUIRED_TAGS = ["nested>=2", "repeat-call", "template-call", "cwd:main-dir", "cwd:parent", "cwd:root", "cwd:unrelated", "cwd:decoy", "path:relative",
                 "path:absolute", "include:subdir", "include:repeated-line", "include:abs+rel", "neg:arity", "neg:keywords", "include:symlink-dotdot", "call-in-loop", "template-call-in-loop", "include:gate-named-like-another-subroutine", "equal-but-different-values", "keyword-order-shuffled", "same-values-other-keywords", "call-transitively-included", "include:all-absolute", "failed-load-then-corrected-file"]
ASSUMPTIONS = ["reference inlining rule: DESIGN Appendix A rule 11 (sorted(sub.modes) -> call modes, parameters bound from keywords)",
               "files are ASCII; sub-programs contain no measured registers (the statement renames modes only)"]


def make_sub(rng, g, name, modeset, template, child=None, regref_args=False, symbolic_child_args=False):
    """child: (call name, relpath, nmodes, params) of a nested sub-program to include and call."""
    G = gen.Gen(rng, g, params=0.3 if template else 0.0, regrefs=0.0, loops=0.0, layout=0.1, hostile_names=0.3,
                funcs=False, complex=rng.random() < 0.3, kwlists=0.3)
    lines = ["name " + name, "version 1.0"]
    if child:
        lines.append('include "%s"' % child[1])
    lines.append("")
    for _ in range(rng.choice([0, 0, 1, 2])):
        t = G.decl_scalar(vartype=rng.choice(["int", "float"]), depth=1)
        if t:
            lines.append(t)
    ms = list(modeset)
    rng.shuffle(ms)
    nst = rng.randint(max(1, len(ms) // 2), len(ms) + 2)
    stmts = []
    for i in range(nst):
        k = rng.choice([1, 1, 2]) if len(ms) > 1 else 1
        use = [ms[i % len(ms)]] + ([rng.choice([m for m in ms if m != ms[i % len(ms)]])] if k == 2 else [])
        stmts.append(G.statement(modes=use, allow_str=rng.random() < 0.3))
    if template and not G.params:
        stmts.append("Tgate({%s}) | %d" % (G.ident(), ms[0]))
        G.params.append(stmts[-1].split("{")[1].split("}")[0])
    if template and rng.random() < 0.5:
        stmts.append("Bare({%s}, k={%s}) | %d" % (G.params[0], G.params[-1], ms[0]))
    if template and rng.random() < 0.4:
        # two parameters inside one argument
        pa = G.params[0]
        pb = G.params[1] if len(G.params) > 1 else G.ident()
        if pb not in G.params:
            G.params.append(pb)
        stmts.append("Dgate({%s} - 2*{%s}, 0.1) | %d" % (pa, pb, ms[0]))
    if template and rng.random() < 0.25:
        # three or more parameters combined inside one list element (and inside one plain argument)
        while len(G.params) < 3:
            G.params.append(G.ident())
        pa, pb, pc = rng.sample(G.params, 3)
        form = rng.choice(["{%s} + {%s} + {%s}", "{%s} + 2*{%s} - {%s}", "0.5*{%s} + {%s} + {%s}"]) % (pa, pb, pc)
        stmts.append(rng.choice(["Mix(w=[%s, {%s}]) | %d" % (form, pa, ms[0]), "Mix(%s, w=[1, %s]) | %d" % (form, form, ms[0])]))
    if regref_args:
        # arguments over several measured registers, not symmetric in them (C19 only: what an
        # include does to the registers of a sub-program is not part of C07's statement)
        for _ in range(rng.choice([1, 2])):
            rs = rng.sample([0, 1, 2, 3, 5, 7, 10, 12, 31, 100], rng.choice([2, 2, 3, 4]))
            if len(ms) >= 2 and rng.random() < 0.6:
                # registers of the sub-program's own modes
                rs = rng.sample(ms, min(len(ms), rng.choice([2, 2, 3])))
            e = "q%d" % rs[0]
            for k_, r_ in enumerate(rs[1:]):
                e += rng.choice([" - %d*q%d", " + %d*q%d", " * %d*q%d"]) % (k_ + 2, r_)
            stmts.append(rng.choice(["Mgate(%s) | %d", "Mgate(0.5, k=%s) | %d", "Mgate(%s, 1) | %d"]) % (e, ms[0]))
    if child:
        cname, _, cn, cparams = child
        if cn <= len(ms):
            call_modes = rng.sample(ms, cn)
            kw = ""
            if cparams:
                vals = {p: rng.choice(["0.5", "2", "1.25", "3/4", "-0.7"]) for p in cparams}
                if template and symbolic_child_args and rng.random() < 0.5:
                    # the including template passes its own parameters on, possibly one that is named like another
                    # parameter of the included template (which then receives a number)
                    if len(cparams) >= 2 and rng.random() < 0.6:
                        a_, b_ = rng.sample(cparams, 2)
                        if b_ not in G.params:
                            stmts.append("Own({%s}) | %d" % (b_, ms[0]))
                            G.params.append(b_)
                        vals[a_] = rng.choice(["{%s}", "{%s}", "2*{%s}", "{%s} + 0.5"]) % b_
                    elif G.params:
                        vals[rng.choice(cparams)] = "{%s}" % rng.choice(G.params)
                kw = "(" + ", ".join("%s=%s" % (p, vals[p]) for p in cparams) + ")"
            stmts.insert(rng.randint(0, len(stmts)), "%s%s | [%s]" % (cname, kw, ", ".join(str(m) for m in call_modes)))
    lines.extend(stmts)
    return "\n".join(lines) + "\n"


def build(rng, g, symbolic_args=False, regref_args=False):
    """Returns (files {relative path: text}, main relative path, info).
    symbolic_args: template calls in the main script may pass the main script's own {parameters}
    (used by C19 only; the reference does not interpret such calls)."""
    files = {}
    tags = set()
    used_names = set()

    def fresh(prefix):
        while True:
            n = prefix + "".join(rng.choice("abcdefghxyzQRS0123456789") for _ in range(rng.randint(1, 5)))
            if n not in used_names:
                used_names.add(n)
                return n

    main_dir = rng.choice(["", "", "proj", "a/b"])
    subs = []  # (name, relpath from main dir, text path, nmodes, params, depth)
    deep = []  # programs included by an included file (visible in the main script as well)
    modesets = {}
    nsubs = rng.choice([1, 1, 2, 2, 3])
    for s in range(nsubs):
        depth = rng.choice([1, 1, 1, 2, 3, 4])
        chain = []
        child = None
        # build the chain bottom-up: deepest first
        d_dirs = [rng.choice(["", "lib", "lib/inner", "x"]) for _ in range(depth)]
        prev = None
        for level in range(depth, 0, -1):
            name = fresh("Sub")
            nm = rng.randint(1, 4)
            pool = rng.sample([0, 1, 2, 3, 5, 8, 12, 17, 40, 64, 100, 120], nm)
            template = rng.random() < 0.45
            sub_dir = os.path.join(main_dir, "inc%d" % s, *[d for d in d_dirs[:level] if d])
            path = os.path.join(sub_dir, name.lower() + ".xbb")
            ch = None
            if prev is not None:
                pname, ppath, pn, pparams = prev
                rel = os.path.relpath(ppath, sub_dir)
                ch = (pname, rel, pn, pparams)
                # a parent must offer at least as many modes as its child needs
                while len(pool) < pn:
                    x = rng.choice([0, 1, 2, 3, 5, 8, 12, 17, 40, 64, 100, 120, 7, 9])
                    if x not in pool:
                        pool.append(x)
            text = make_sub(rng, g, name, pool, template, ch, regref_args=regref_args and rng.random() < 0.7, symbolic_child_args=symbolic_args)
            files[path] = text
            # reference view of this file alone (needs the files below it)
            try:
                ref = refsem.run(text, g, fs=lambda p: files.get(os.path.normpath(p)), filename=path, check=False)
            except (OOD, refsem.IllFormed, refsem.RefSyntax) as e:
                raise RuntimeError("sub-program not valid: %s" % e)
            prev = (name, path, len(ref.modes), ref.param_names())
            modesets[name] = sorted(ref.modes)
            if level > 1 and len(ref.modes) > 0:
                deep.append((name, path, len(ref.modes), ref.param_names(), level))
        name, path, nmodes, params = prev
        if nmodes == 0:
            raise RuntimeError("sub-program without modes")
        subs.append((name, path, nmodes, params, depth))
        if depth >= 2:
            tags.add("nested>=2")
        if os.path.dirname(os.path.relpath(path, main_dir or ".")) not in ("", "."):
            tags.add("include:subdir")
    if len(subs) >= 2 and rng.random() < 0.35:
        # the file of the last subroutine applies, as an ordinary gate, an operation named like an earlier subroutine
        # (it does not include that subroutine, so for it the name is just a gate)
        (n0, p0_, nm0, par0, d0) = subs[0]
        (n1, p1_, nm1, par1, d1) = subs[-1]
        t1 = files[p1_].rstrip("\n").split("\n")
        ref1 = refsem.run(files[p1_], g, fs=lambda p: files.get(os.path.normpath(p)), filename=p1_, check=False)
        m_ = sorted(ref1.modes)[0]
        t1.append("%s%s | %d" % (n0, rng.choice(["", "(0.5)", "(k=1)"]), m_))
        files[p1_] = "\n".join(t1) + "\n"
        tags.add("include:gate-named-like-another-subroutine")
    # main script
    G = gen.Gen(rng, g, params=0.0, regrefs=0.0, loops=0.2, layout=0.1, funcs=False)
    lines = ["name " + fresh("Main"), "version 1.0"]
    if rng.random() < 0.25:
        # metadata with options; now and then an option holds a template parameter of the main script
        # (the included files are read while the main script's metadata is still being processed)
        mp = fresh("mp")
        opts = [rng.choice(["shots=100", "cutoff_dim=5", 'mode="fast"', "eta=0.9"])]
        if rng.random() < 0.6:
            opts.insert(rng.randint(0, 1), rng.choice(["shots={%s}", "k={%s}", "lam=2*{%s}"]) % mp)
            tags.add("main-metadata-parameter")
        lines.append("target %s (%s)" % (rng.choice(["gaussian", "fock", "X8_01"]), ", ".join(opts)))
        if rng.random() < 0.4:
            lines.append("type %s (%s)" % (rng.choice(["tdm", "gbs"]), rng.choice(["copies=2", "temporal_modes=3", "n={%s}" % mp])))
            if mp in lines[-1]:
                tags.add("main-metadata-parameter")
    inc = []
    for (name, path, nmodes, params, depth) in subs:
        rel = os.path.relpath(path, main_dir or ".")
        inc.append('include "%s"' % rel)
        c = rng.random()
        if c < 0.15:
            inc.append('include "%s"' % rel)
            tags.add("include:repeated-line")
        elif c < 0.3:
            inc.append('include "@ABS@/%s"' % path)
            tags.add("include:abs+rel")
        elif c < 0.4:
            inc[-1] = 'include "@ABS@/%s"' % path
            tags.add("include:absolute-only")
    if rng.random() < 0.15:
        # every include of the main script absolute: such a script can also be given to loads()
        inc = ['include "@ABS@/%s"' % s_[1] for s_ in subs]
        tags.add("include:all-absolute")
    rng.shuffle(inc)
    lines.extend(inc)
    lines.append("")
    body = []
    calls = []
    prev_call = {}
    called = list(subs)
    if deep and rng.random() < 0.4:
        # the main script applies a program that only an included file includes
        called.append(rng.choice(deep))
        tags.add("call-transitively-included")
    for (name, path, nmodes, params, depth) in called:
        ncalls = rng.choice([1, 1, 2, 2, 3, 4])
        if ncalls >= 2:
            tags.add("repeat-call")
        for _ in range(ncalls):
            modes = rng.sample(range(0, 30), nmodes)
            if regref_args and nmodes >= 2 and rng.random() < 0.5 and len(modesets.get(name, [])) == nmodes:
                # applied to a permutation of its own modes
                modes = list(modesets[name])
                while modes == modesets[name]:
                    rng.shuffle(modes)
            kw = ""
            if params:
                tags.add("template-call")
                vals_ = ["0.5", "2", "1.25", "3/4", "-0.7", "2*0.3", "pi/4"]
                if rng.random() < 0.3:
                    # values whose floating-point sum depends on the order of the additions
                    vals_ = ["0.1", "0.2", "0.3", "0.7", "1.1", "2.2"]   # (no huge values of opposite sign: a sum that cancels catastrophically under another order is outside the statements)
                if rng.random() < 0.3:
                    # values that compare equal although they differ in kind or in the sign of zero
                    vals_ = rng.choice([["1", "1.0"], ["0.0", "-0.0"], ["2", "2.0"], ["0", "-0.0", "0.0"]])
                    tags.add("equal-but-different-values")
                if symbolic_args and rng.random() < 0.6:
                    # the caller's own parameters, named like the callee's (possibly crossed over)
                    vals_ = ["{%s}" % q for q in params] + ["{zz}", "0.5"]
                    tags.add("symbolic-include-argument")
                    if len(params) >= 2 and rng.random() < 0.6:
                        # crossed over: one parameter receives the caller's parameter named like another one, which receives a number
                        a_, b_ = rng.sample(params, 2)
                        kw = "(" + ", ".join("%s=%s" % (p, "{%s}" % b_ if p == a_ else (rng.choice(["0.5", "2", "-0.7"]) if p == b_ else rng.choice(vals_))) for p in params) + ")"
                        body.append("%s%s | %s" % (name, kw, rng.choice(["[%s]", "(%s)", "%s"]) % ", ".join(str(m) for m in modes)))
                        calls.append((name, modes))
                        continue
                order = list(params)
                chosen = [rng.choice(vals_) for _ in params]
                if len(params) >= 2 and rng.random() < 0.5:
                    # keyword arguments are written in any order
                    rng.shuffle(order)
                    tags.add("keyword-order-shuffled")
                    if name in prev_call and rng.random() < 0.6 and order != prev_call[name][0]:
                        # the same sequence of values as an earlier call of this subroutine, other keywords
                        chosen = prev_call[name][1]
                        tags.add("same-values-other-keywords")
                prev_call[name] = (order, chosen)
                kw = "(" + ", ".join("%s=%s" % (p, v_) for p, v_ in zip(order, chosen)) + ")"
            body.append("%s%s | %s" % (name, kw, rng.choice(["[%s]", "(%s)", "%s"]) % ", ".join(str(m) for m in modes)))
            calls.append((name, modes))
    for _ in range(rng.choice([0, 1, 2, 3])):
        body.append(G.statement(allow_sym=False))
    rng.shuffle(body)
    if rng.random() < 0.3:
        # a subroutine applied inside a for loop; its keyword values and/or modes depend on the loop variable
        (name, path, nmodes, params, depth) = rng.choice(subs)
        v = "lv" + str(rng.randint(0, 9))
        vt = rng.choice(["int", "float"]) if params else "int"
        modes = rng.sample(range(30, 60), nmodes)
        mtxt = ", ".join(str(m) for m in modes)
        if vt == "int" and rng.random() < 0.6:
            mtxt = ", ".join([v + " + 60"] + [str(m) for m in modes[1:]])
        kw = ""
        if params:
            tags.add("template-call-in-loop")
            kw = "(" + ", ".join("%s=%s" % (p, rng.choice([v, v + "*0.5", "0.25", v + " + 1"])) for p in params) + ")"
        body.append("for %s %s in %s" % (vt, v, rng.choice(["1:4", "[1, 2, 4]", "0:3"])))
        body.append("    %s%s | [%s]" % (name, kw, mtxt))
        tags.add("call-in-loop")
        tags.add("repeat-call")
    lines.extend(body)
    main_path = os.path.join(main_dir, "main.xbb")
    files[main_path] = "\n".join(lines) + "\n"
    info = {"tags": tags, "subs": subs, "ncalls": len(calls)}
    return files, main_path, info


def build_symlink_case(rng, g):
    """A directory reached through a symbolic link whose files include '../x': the
    operating system resolves '..' against the link's target, not against the link's name."""
    used = "".join(rng.choice("abcdefgh") for _ in range(4))
    child_ops = "Sgate(0.%d) | 3\nBSgate | [3, 8]\n" % rng.randint(1, 9)
    decoy_ops = "Rgate(0.%d) | 3\nKgate(1) | 8\nVac | 3\n" % rng.randint(1, 9)
    files = {
        "shared/pkg/xbb/par_%s.xbb" % used: "name Par%s\nversion 1.0\ninclude \"../child.xbb\"\n\nDgate(0.5) | 5\nChild | [5, 12]\nVac | 12\n" % used,
        "shared/pkg/child.xbb": "name Child\nversion 1.0\n\n" + child_ops,
        "proj/child.xbb": "name Child\nversion 1.0\n\n" + decoy_ops,
        "proj/main.xbb": "name Main%s\nversion 1.0\ninclude \"vendor/par_%s.xbb\"\n\nPar%s | [%d, %d]\nVac | 0\n" % (used, used, used, rng.randint(0, 9), rng.randint(10, 19)),
        "__symlinks__": {"proj/vendor": rng.choice(["../shared/pkg/xbb", "@ABS@/shared/pkg/xbb"])},
    }
    info = {"tags": {"include:symlink-dotdot", "nested>=2", "include:subdir"}, "subs": [("Par" + used, "proj/vendor/par_%s.xbb" % used, 2, [], 2)], "ncalls": 1}
    return files, "proj/main.xbb", info


def negative_variant(rng, files, main_path, info):
    """Break one call in main: wrong number of modes, or wrong/missing/extra keywords."""
    text = files[main_path]
    lines = text.split("\n")
    names = {s[0]: s for s in info["subs"]}
    idx = [i for i, ln in enumerate(lines) if ln.split("(")[0].split(" ")[0] in names]
    if not idx:
        return None
    i = rng.choice(idx)
    ln = lines[i]
    if not ln.startswith((" ", "\t")) and rng.random() < 0.5:
        # keep the valid call and put the faulty one right after it: the fault
        # then follows a correct application of the same subroutine with the same arguments
        lines.insert(i + 1, ln)
        i += 1
    name = ln.split("(")[0].split(" ")[0]
    sub = names[name]
    head, modes = ln.rsplit("|", 1)
    if rng.random() < 0.5:
        ms = [m.strip() for m in modes.strip(" []()").split(",")]
        if rng.random() < 0.5 and len(ms) > 1:
            ms = ms[:-1]
        else:
            ms = ms + ["31"]
        lines[i] = head + "| [" + ", ".join(ms) + "]"
        tag = "neg:arity"
    else:
        params = sub[3]
        if params:
            c = rng.random()
            if c < 0.35:
                lines[i] = name + " |" + modes  # arguments missing
            elif c < 0.7:
                lines[i] = head.rstrip().rstrip(")") + ", zz9=1) |" + modes  # extra keyword
            else:
                lines[i] = name + "(" + ", ".join("%s=1" % p for p in params[:-1] + ["other_kw"]) + ") |" + modes
        else:
            lines[i] = name + rng.choice(["(a=1)", "()", "(x=0.5, y=2)"]) + " |" + modes
        tag = "neg:keywords"
    nf = dict(files)
    nf[main_path] = "\n".join(lines)
    return nf, tag


def materialise(root, files):
    for rel, text in files.items():
        if rel == "__symlinks__":
            continue
        p = os.path.join(root, rel)
        os.makedirs(os.path.dirname(p), exist_ok=True)
        with open(p, "w", encoding="ascii") as f:
            f.write(text.replace("@ABS@", root))
    for link, target in files.get("__symlinks__", {}).items():
        lp = os.path.join(root, link)
        os.makedirs(os.path.dirname(lp), exist_ok=True)
        os.symlink(target.replace("@ABS@", root), lp)


def ref_of(files, main_path, root):
    g = common.grammar()
    opened = []

    def fs(p):
        # the tree has been materialised under root: let the operating system resolve the path
        opened.append(p)
        try:
            with open(p, encoding="ascii") as f:
                return f.read()
        except OSError:
            return None

    main_abs = os.path.join(root, main_path)
    text = fs(main_abs)
    ok, bad, toks = g.is_sentence(text)
    if not ok:
        return ("nosentence",)
    try:
        return ("ok", refsem.run(text, g, fs=fs, filename=main_abs, tokens=toks, meta_params=True))
    except OOD as e:
        return ("ood", e.reason)
    except refsem.IllFormed as e:
        return ("ill", e)
    except refsem.RefSyntax as e:
        return ("refbug", str(e))


CWDS = ("cwd:main-dir", "cwd:parent", "cwd:root", "cwd:unrelated", "cwd:decoy")


def load_under(root, main_path, cwd_kind, path_kind, other):
    import blackbird

    main_abs = os.path.join(root, main_path)
    if cwd_kind == "cwd:main-dir":
        cwd = os.path.dirname(main_abs)
    elif cwd_kind == "cwd:parent":
        cwd = os.path.dirname(os.path.dirname(main_abs)) if os.path.dirname(main_path) else os.path.dirname(root)
    elif cwd_kind == "cwd:root":
        cwd = "/"
    elif cwd_kind == "cwd:decoy":
        cwd = os.path.join(other, "decoy")
    else:
        cwd = other
    arg = main_abs if path_kind == "path:absolute" else os.path.relpath(main_abs, cwd)
    old = os.getcwd()
    os.chdir(cwd)
    try:
        return blackbird.load(arg), None
    except Exception as e:
        return None, e
    finally:
        os.chdir(old)


def make_decoys(files, other):
    """A working directory that holds *other* programs under every relative
    include path written anywhere in the tree (same program name, other
    operations): whoever resolves an include against the process working
    directory instead of the including file finds these."""
    import re

    decoy = os.path.join(other, "decoy")
    os.makedirs(decoy, exist_ok=True)
    for rel, text in files.items():
        if rel == "__symlinks__":
            continue
        for m in re.finditer(r'^include "([^"@][^"]*)"', text, re.M):
            written = m.group(1)
            target = os.path.normpath(os.path.join(os.path.dirname(rel), written))
            tt = files.get(target)
            if not isinstance(tt, str):
                continue
            nm = re.search(r"^name (\S+)", tt, re.M)
            dest = os.path.normpath(os.path.join(decoy, written))
            if not nm or not dest.startswith(decoy + os.sep):
                continue
            os.makedirs(os.path.dirname(dest), exist_ok=True)
            with open(dest, "w", encoding="ascii") as f:
                f.write("name %s\nversion 1.0\n\nDecoyGate(0.123) | 0\n" % nm.group(1))


def check_tree(ctx, files, main_path, info, rng, negative=None):
    root = tempfile.mkdtemp(prefix="bbv-c07-")
    other = tempfile.mkdtemp(prefix="bbv-c07o-")
    try:
        root = os.path.realpath(root)
        other = os.path.realpath(other)
        materialise(root, files)
        make_decoys(files, other)
        k = ref_of(files, main_path, root)
        witness = {"files": files, "main": main_path}
        payload = repr(sorted((k_, v_ if isinstance(v_, str) else sorted(v_.items())) for k_, v_ in files.items()))
        if negative:
            if k[0] != "ill" or not k[1].kind.startswith("include-"):
                return ctx.out_of_domain("negative include case not ill-formed as intended (%s)" % (k[0] if k[0] != "ill" else k[1].kind))
            ctx.case(payload, True, tags=[negative])
            p, exc = load_under(root, main_path, "cwd:main-dir", "path:absolute", other)
            if exc is None:
                ctx.violation("accepted:" + negative, "a call with fault %s (%s) returned a program" % (negative, k[1].kind), witness)
            else:
                ctx.observe("negative refused with " + type(exc).__name__)
            return
        if k[0] == "ood":
            return ctx.out_of_domain(k[1].split(" (")[0])
        if k[0] != "ok":
            return ctx.out_of_domain("generator produced an invalid tree (%s)" % (k[0] if k[0] != "ill" else k[1].kind))
        ref = k[1]
        tags = set(info["tags"])
        nt = "repeat-call" in tags or "nested>=2" in tags or any(s[2] >= 3 for s in info["subs"])
        combos = [(c, p) for c in CWDS for p in ("path:absolute", "path:relative")]
        chosen = combos if ctx.tier == "thorough" else rng.sample(combos, 3)
        for (c, p) in chosen:
            tags.add(c)
            tags.add(p)
        ctx.case(payload, nt, tags=sorted(tags))
        ctx.sample({"files": {k_: v for k_, v in files.items()}, "main": main_path}, limit=1)
        incs = [f_ for f_, v_ in files.items() if f_ != main_path and isinstance(v_, str)]
        if incs and rng.random() < 0.2:
            # an included file is faulty at first (undefined name / syntax error / wrong call), the load fails, the file is
            # corrected and the same paths are loaded again: the corrected tree must give the program it denotes
            f_ = rng.choice(incs)
            path_ = os.path.join(root, f_)
            if os.path.isfile(path_) and not os.path.islink(path_):
                fault_ = rng.choice(["\nZz9(undefined_name_qq) | 0\n", "\nG(1 | 0\n", "\nint bad__ = 1+2j\n"])
                with open(path_, "w", encoding="ascii", newline="") as fh_:
                    fh_.write(files[f_].replace("@ABS@", root).rstrip("\n") + fault_)
                p0, e0 = load_under(root, main_path, chosen[0][0], chosen[0][1], other)
                with open(path_, "w", encoding="ascii", newline="") as fh_:
                    fh_.write(files[f_].replace("@ABS@", root))
                tags.add("failed-load-then-corrected-file")
                ctx.case(payload + "/fail-first", True, tags=["failed-load-then-corrected-file"])
                if e0 is None:
                    ctx.observe("a tree with a faulty included file loaded (the faulty statement is after what the main script uses)")
        first = None
        for (c, p) in chosen:
            prog, exc = load_under(root, main_path, c, p, other)
            ctx.observe("load() calls")
            w = dict(witness, cwd=c, path=p)
            if exc is not None:
                return ctx.violation("raises:" + common.exc_key(exc), "load() raised %s under %s, %s" % (common.exc_text(exc), c, p), w)
            cc = content.program_content(prog)
            d = content.diff_ref(ref, cc, seed="C07")
            if d:
                return ctx.violation(common.diff_key(d), "under %s, %s: %s" % (c, p, common.diff_text(d)), w)
            # operations returned for different calls must not alias each other
            ids = [id(o) for o in prog.operations]
            if len(set(ids)) != len(ids):
                return ctx.violation("aliased-operations", "the same operation object occurs twice in the loaded program", w)
        main_text = files[main_path]
        inc_lines = [ln for ln in main_text.split("\n") if ln.startswith("include ")]
        if inc_lines and all(ln.startswith('include "@ABS@/') for ln in inc_lines):
            # no relative path in the main script: the text alone denotes the same program,
            # whatever the working directory of the process is
            import blackbird

            old_cwd = os.getcwd()
            prog = exc = None
            try:
                os.chdir(other)
                try:
                    prog = blackbird.loads(main_text.replace("@ABS@", root))
                except Exception as e:
                    exc = e
            finally:
                os.chdir(old_cwd)
            ctx.hook("loads() of a main script with absolute includes")
            w = dict(witness, via="loads", cwd="cwd:unrelated")
            if exc is not None:
                return ctx.violation("loads-raises:" + common.exc_key(exc), "loads() of the main script (all includes absolute) raised %s" % common.exc_text(exc), w)
            d = content.diff_ref(ref, content.program_content(prog), seed="C07")
            if d:
                return ctx.violation("loads:" + common.diff_key(d), "loads() of the main script (all includes absolute): %s" % common.diff_text(d), w)
    finally:
        shutil.rmtree(root, ignore_errors=True)
        shutil.rmtree(other, ignore_errors=True)


def run(ctx):
    g = common.grammar()
    if ctx.worker == 0:
        for e in common.corpus(ID):
            check_tree(ctx, e["files"], e["main"], {"tags": set(e.get("tags", ["corpus"])), "subs": [tuple(s) for s in e.get("subs", [])]}, ctx.rng("corpus"), negative=e.get("negative"))
    n = ctx.share(BUDGET[ctx.tier])
    for i in range(n):
        rng = ctx.rng(i)
        try:
            if rng.random() < 0.06:
                files, main_path, info = build_symlink_case(rng, g)
            else:
                # a third of the trees pass template parameters on to included templates (main script and nested)
                files, main_path, info = build(rng, g, symbolic_args=rng.random() < 0.33)
        except RuntimeError as e:
            ctx.out_of_domain("generator: " + str(e).split(":")[0])
            continue
        if rng.random() < 0.2:
            nv = negative_variant(rng, files, main_path, info)
            if nv:
                check_tree(ctx, nv[0], main_path, info, rng, negative=nv[1])
                continue
        check_tree(ctx, files, main_path, info, rng)


def replay(w):
    class C:
        res = None
        tier = "thorough"

        def out_of_domain(self, r):
            pass

        def case(self, *a, **k):
            pass

        def sample(self, *a, **k):
            pass

        def observe(self, *a, **k):
            pass

        def violation(self, key, summary, witness):
            if self.res is None:
                self.res = "%s: %s" % (key, summary)

    import random

    c = C()
    check_tree(c, w["files"], w["main"], {"tags": set(), "subs": []}, random.Random(0), negative=w.get("negative"))
    return c.res
