"""Front-end self-test run by MANIFEST.setup_cmd: the grammar file is understood,
the reference lexer/recogniser and interpreter work on the repository's example
scripts, and `blackbird` imports from the tree under test."""
import glob
import sys

from . import common, env, refsem


def main():
    bb = env.setup()
    g = common.grammar()
    n = 0
    for f in sorted(glob.glob(env.repo_path("examples", "*.xbb"))):
        with open(f) as fh:
            s = fh.read()
        ok, bad, toks = g.is_sentence(s)
        if not ok:
            print("selftest: reference recogniser rejects", f)
            return 1
        try:
            refsem.parse_tokens(toks)
        except refsem.RefSyntax as e:
            print("selftest: reference parser rejects", f, e)
            return 1
        n += 1
    print("selftest ok: %d token types, %d NFA states, %d productions, %d example scripts, blackbird from %s" % (
        len(g.token_names), g.nfa_states, len(g.prods), n, bb.__file__))
    return 0
