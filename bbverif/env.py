"""Process environment: make `import blackbird` resolve to the tree under test.

Every check process calls :func:`setup` first.  The tree is ``$BBVERIF_REPO``
(default ``/repo``); the harness-side instrumentation is switched on by
``BLACKBIRD_VERIF=1`` (set by the runner for its workers).  Nothing in the
repository itself reads that variable: there are no source hooks.
"""
import os
import sys
import warnings

REPO = os.path.abspath(os.environ.get("BBVERIF_REPO", "/repo"))
VERIF = os.path.dirname(os.path.dirname(os.path.abspath(__file__)))
GUARD = "BLACKBIRD_VERIF"
_done = False


def repo_path(*parts):
    return os.path.join(REPO, *parts)


def grammar_path():
    return repo_path("src", "blackbird.g4")


def setup():
    """Insert the tree under test at the front of sys.path and import blackbird from it."""
    global _done
    if _done:
        return sys.modules["blackbird"]
    sys.dont_write_bytecode = True
    os.environ["PYTHONDONTWRITEBYTECODE"] = "1"
    pkg = repo_path("blackbird_python")
    if pkg in sys.path:
        sys.path.remove(pkg)
    sys.path.insert(0, pkg)
    for m in [m for m in sys.modules if m == "blackbird" or m.startswith("blackbird.")]:
        del sys.modules[m]
    warnings.simplefilter("ignore")
    import numpy as np

    np.seterr(all="ignore")
    import blackbird

    where = os.path.abspath(blackbird.__file__)
    if not where.startswith(pkg + os.sep):
        raise RuntimeError("blackbird imported from %s, expected under %s" % (where, pkg))
    _done = True
    return blackbird


def guard_on():
    return os.environ.get(GUARD) == "1"
