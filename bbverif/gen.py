"""Workload generators (DESIGN §1.3).

Generators render *text*; the text is what both the real code and the
reference consume, so lexer effects are judged from the text, never assumed.
A generator only has to be *mostly* right: a script the reference rejects,
finds ill-formed or out of domain is routed/counted by the caller, not trusted.
"""
import keyword
import random
import re

from . import refsem
from .refnum import OOD, V

NEAR_MISS_NAMES = [
    "q", "pie", "names", "p0", "p12", "e", "E", "I", "S", "N", "O", "Q", "r", "rr", "r1", "a", "alpha", "al",
    "phi", "ph", "x", "xx", "x1", "y", "z", "n", "m", "k", "t", "theta", "sq", "beta", "gamma", "zeta",
    "arr", "floaty", "inty", "fork", "ink", "typed", "versions", "targets", "included", "Truex", "pi2",
    "sinx", "logx", "expo", "sqrt2", "Measure1", "MeasureX_1", "qq1", "q_1", "A", "B", "U", "A0", "A1", "M", "P0", "pa",
    "j", "J", "d", "b", "c", "beta_1", "w", "v", "u", "lam", "re", "im", "oo", "zoo", "nan", "li", "Si", "Ci", "gamma_", "ff",
    # names the package uses itself for the fields of an operation, a graph node or a program
    "modes", "args", "kwargs", "op", "options", "idx", "parameters", "variables", "func", "regrefs", "expr",
    # names an implementation may use for its own placeholders and temporaries
    "rhs", "lhs", "val", "res", "tmp", "var", "sol", "_x", "x0", "symbol", "value", "result", "dummy", "Dummy", "xi", "_",
    # look like p-names to a lenient reader
    "p1_0", "p10_2", "p0_0", "p1_",
]
# names Python gives a meaning of its own when parameter names are passed as keyword arguments: keywords, and the name
# of the bound-method parameter of BlackbirdProgram.__call__ (known finding python-keyword-parameter-name)
PY_KEYWORDS = ["lambda", "is", "as", "if", "or", "and", "not", "del", "def", "from", "pass", "None", "class", "try", "self"]
GATE_NAMES = ["Sgate", "Dgate", "BSgate", "Rgate", "Vac", "Coherent", "Fock", "S2gate", "Xgate", "Zgate", "Kgate",
              "Interferometer", "GaussianTransform", "CXgate", "MZgate", "LossChannel", "Thermal", "G", "H", "Op_1"]
MEASURE_NAMES = ["Measure", "MeasureX", "MeasureP", "MeasureFock", "MeasureHomodyne", "MeasureHD", "MeasureIntensity", "MeasureThreshold"]
FUNCS = ["sqrt", "sin", "cos", "tan", "arcsin", "arccos", "arctan", "sinh", "cosh", "tanh", "arcsinh", "arccosh", "arctanh", "exp", "log"]
DEVICES = ["gaussian", "fock", "X8_01", "Chip0", "chip2", "tf", "X12", "dev", "TD2", "borealis", "X8", "1.2.x", "0a", "sim_1", "a.b"]


class Gen:
    def __init__(self, rng, grammar, **opts):
        self.r = rng
        self.g = grammar
        self.o = dict(
            params=0.0,        # probability weight of template parameters in expressions
            regrefs=0.0,       # of measured registers in arguments
            arrays=0.5,
            loops=0.3,
            options=0.5,
            kwlists=0.3,
            tdm=False,
            complex=True,
            funcs=True,
            max_mode=120,
            hostile_names=0.3,
            layout=0.3,        # probability of non-plain spacing/comments
            pykw_params=0.0,
            func_of_param=0.0,
            complex_coeff=0.0,
            empty_list=0.0,
            array_params=0.0,
            strs=True,
            big=False,         # occasionally exceed the usual sizes: long names/strings/lists/arrays/scripts, large numbers, many modes
        )
        self.o.update(opts)
        self.used = set()
        self.it = refsem.Interp(grammar)
        self.it.in_metadata = False
        self.scalars = {}   # name -> type word
        self.arrays = {}    # name -> (type word, rows, cols, has_param)
        self.params = []
        self.int_params = set()
        self.tags = set()
        self.lines = []

    # ------------------------------------------------------------- primitives
    def coin(self, p):
        return self.r.random() < p

    def is_name(self, s):
        try:
            t = self.g.tokenize(s)
        except ValueError:
            return False
        return len(t) == 1 and t[0].type == "NAME" and t[0].text == s

    def ident(self, fresh=True, pool=None):
        r = self.r
        for _ in range(200):
            if pool is not None:
                s = r.choice(pool)
            elif self.coin(self.o["hostile_names"]):
                s = r.choice(NEAR_MISS_NAMES)
            else:
                n = r.choice([1, 1, 2, 3, 4, 6, 9, 12] + ([20, 33, 64] if self.o["big"] else []))
                s = r.choice("abcdefghijklmnopqrstuvwxyzABCDEFGHIJKLMNOPQRSTUVWXYZ")
                s += "".join(r.choice("abcdefghijklmnopqrstuvwxyzABCDEFGHIJKLMNOPQRSTUVWXYZ0123456789_") for _ in range(n - 1))
            if not self.is_name(s):
                continue
            if fresh and s in self.used:
                continue
            if keyword.iskeyword(s) and pool is None:
                continue
            self.used.add(s)
            return s
        raise RuntimeError("cannot find an identifier")

    def opname(self):
        r = self.r
        if self.coin(0.18):
            s = r.choice(MEASURE_NAMES)
            if self.coin(0.2):
                s = "Measure" + "".join(r.choice("ABCDEFGHIJKLMNOPQRSTUVWXYZabcdefghijklmnopqrstuvwxyz") for _ in range(r.randint(1, 6)))
            return s
        if self.coin(0.7):
            return r.choice(GATE_NAMES)
        for _ in range(50):
            s = self.ident(fresh=False)
            if s not in self.scalars and s not in self.arrays:
                return s
        return "G"

    def string(self):
        r = self.r
        if not self.o["strs"]:
            return '"s"'
        if self.coin(0.12):
            # contents that look like other tokens or like format directives
            pool_ = ["True", "False", "pi", "q0", "name", "version", "for", "1", "1.5", "1+2j", "p0", "sin", "%s", "50%", "%d items", "\\n", "#c", "a,b", " "]
            if self.o.get("brace_strings", True):
                pool_ += ["{x}", "{0}", "{", "}"]
            pool_ += ["left\tright", "\t", "a \t b", "x\t"]
            return '"%s"' % r.choice(pool_)
        alphabet = "abcXYZ019 _-+*/=.,:;()[]<>!?#$%&@^~|'\\`"
        n = r.choice([0, 1, 1, 3, 5, 9] + ([40, 120, 300] if self.o["big"] else []))
        s = "".join(r.choice(alphabet) for _ in range(n))
        return '"%s"' % s

    def int_lit(self, lo=0, hi=12):
        r = self.r
        v = r.randint(lo, hi) if self.coin(0.6 if self.o["big"] else 0.85) else r.choice([0, 1, 2, 17, 100, 255, 1000, 65536, 123456789] + ([2 ** 31, 2 ** 31 - 1, 2 ** 32 + 1, 10 ** 12, 2 ** 53 + 1, 2 ** 62, 999999999999999999] if self.o["big"] else []))
        s = str(v)
        if self.coin(0.08):
            s = "0" * r.randint(1, 2) + s
        return s

    def float_lit(self):
        r = self.r
        k = r.random()
        if k < 0.45:
            return r.choice(["0.5", "1.5", "2.0", "0.25", "3.75", "0.1", "9.99", "0.3423", "1.0", "2.5", "0.75", "6.543", "00.50", "12.125"])
        if k < 0.7:
            return "%d.%d" % (r.randint(0, 20), r.randint(0, 999))
        if k < 0.9:
            return r.choice(["1e1", "1E-2", "2.5e+1", "1.0e0", "3e-3", "1.5E2", "7E0", "2e+0", "1.25e-1", "4.0E+1"])
        return r.choice(["1e-7", "2.5e10", "1e-12", "6.02e23", "1.6e-19", "9.9e15", "5e-300", "1e300"])

    def complex_lit(self):
        r = self.r
        k = r.random()
        if k < 0.35:
            return r.choice(["2j", "1.5J", "0.5j", "1e1j", "3J", "0j", "1j", "2.5e-1j", "7J"])
        if k < 0.8:
            return r.choice(["1+2j", "1.5-0.5j", "0.5-2j", "1e1+2.5e-1j", "3-4J", "0.25+0.75j", "2+0j", "1.0+1.0j", "10-1j"])
        return r.choice(["-1+1j", "+2-3J", "-1.5e1-2.5E-1j", "-0.5j", "+1j", "-2J"])

    def num_lit(self, kinds="ifc"):
        r = self.r
        pool = []
        if "i" in kinds:
            pool += ["i"] * 4
        if "f" in kinds:
            pool += ["f"] * 3 + ["p"]
        if "c" in kinds and self.o["complex"]:
            pool += ["c"] * 2
        k = r.choice(pool)
        if k == "i":
            return self.int_lit()
        if k == "f":
            return self.float_lit()
        if k == "p":
            return "pi"
        return self.complex_lit()

    def sp(self):
        if self.coin(self.o["layout"]):
            return self.r.choice(["", " ", " ", "  ", "   "])
        return " "

    def binop(self, a, op, b):
        # symmetric spacing only: 'a -b' can glue the sign to a complex literal
        s = self.r.choice(["", " ", " ", " ", "  "]) if self.coin(0.5) else " "
        if op in ("-", "+") and s == "" and (b[:1].isdigit() or a[-1:] in "jJ"):
            s = " "
        if op == "**" and self.coin(0.5):
            s = ""
        if s == "" and (a[-1:] == "*" or b[:1] == "*"):
            s = " "
        return a + s + op + s + b

    # ------------------------------------------------------------ expressions
    def atom(self, kinds):
        r = self.r
        c = r.random()
        names = [n for n, t in self.scalars.items() if t[0] in kinds]
        arrs = [n for n, (t, rr, cc, hp) in self.arrays.items() if t[0] in kinds and not hp and n not in self.it.prog.pnames]
        if c < 0.25:
            if names:
                return r.choice(names)
        elif c < 0.35:
            if arrs:
                n = r.choice(arrs)
                t, rr, cc, hp = self.arrays[n]
                k = r.randrange(rr * cc)
                return "%s[%s]" % (n, self.int_expr_for(k, depth=r.choice([0, 0, 1])))
        elif c < 0.35 + self.o["params"] and "f" in kinds:
            return "{%s}" % self.param()
        return self.num_lit(kinds)

    def param(self):
        r = self.r
        if self.params and self.coin(0.6):
            return r.choice(self.params)
        if self.coin(self.o["pykw_params"]):
            p = r.choice(PY_KEYWORDS)
            self.tags.add("pykw-param")
        else:
            p = self.ident(fresh=False)
        if p in self.scalars or p in self.arrays:
            # a parameter may share its name with a variable; keep it rare
            if self.coin(0.8):
                return self.param()
        if p not in self.params:
            self.params.append(p)
        return p

    def expr(self, depth, kinds="ifc", sym=False):
        """Numeric expression text.  kinds: which literal/variable kinds may occur."""
        r = self.r
        if depth <= 0 or self.coin(0.2):
            return self.atom(kinds)
        c = r.random()
        if c < 0.55:
            op = r.choice(["+", "-", "*", "/", "**", "+", "*", "-", "/"])
            a = self.expr(depth - 1, kinds)
            if op == "**":
                b = r.choice([self.int_lit(0, 4), self.int_lit(0, 3), "2", "0.5", self.expr(depth - 2, "if")])
            elif op == "/":
                b = self.expr(depth - 1, kinds) if self.coin(0.6) else r.choice([self.int_lit(1, 9), self.float_lit(), "(1+1)", "2*2"])
            else:
                b = self.expr(depth - 1, kinds)
            return self.binop(a, op, b)
        if c < 0.70:
            return "(" + self.sp().strip(" ") + self.expr(depth - 1, kinds) + ")"
        if c < 0.82:
            return r.choice(["-", "+", "- ", "--", "-+", "+-"]) + self.expr(depth - 1, kinds)
        if c < 0.85 and "i" in kinds and "f" in kinds:
            # chains of divisions and multiplications whose left-to-right intermediate values are harmless while another
            # grouping (the product of the divisors, a product before the division) leaves int64 or the float range
            big = [r.choice(["3037000500", "4294967296", "2147483648", "10000000000", "4611686018427387904", "3037000499", "65536*65536"]) for _ in range(3)]
            if self.coin(0.4):
                big = [r.choice(["1e200", "2.5e160", "1E180", "4e-170", "1e-200"]) for _ in range(3)]
            small = self.atom("if") if self.coin(0.5) else r.choice(["1", "3", "7.5", "-2"])
            self.tags.add("scale-chain")
            return r.choice(["%s/%s/%s", "%s/%s/%s/%s", "%s*%s/%s/%s", "%s/%s*%s/%s", "%s/%s/%s*%s", "(%s)/%s/%s"]).replace("%s", "{}").format(small, *big)
        if self.o["funcs"]:
            f = r.choice(FUNCS)
            saved = self.o["params"]
            self.o["params"] = 0.0   # a function of a parameter is a known finding, generated on purpose only
            try:
                inner = self.func_arg(f, depth - 1)
            finally:
                self.o["params"] = saved
            return f + r.choice(["(", "( "]) + inner + ")"
        return self.atom(kinds)

    def func_arg(self, f, depth):
        r = self.r
        if self.coin(self.o["func_of_param"]):
            self.tags.add("func-of-param")
            return "{%s}" % self.param()
        if self.coin(0.15):
            # the ends of the (closed) real domains, and other arguments with an exactly representable image
            ends = {"arcsin": ["1", "-1", "1.0", "-1.0", "4/2-1", "0"], "arccos": ["1", "-1", "1.0", "-1.0", "2-1", "0"], "arccosh": ["1", "1.0", "3-2"],
                    "sqrt": ["0", "0.0", "1", "4"], "log": ["1", "1.0"], "arctanh": ["0", "0.0", "-0.0"], "exp": ["0", "-0.0"], "tan": ["0", "-0.0"],
                    "sin": ["0", "-0.0"], "cos": ["0", "pi"], "sinh": ["0", "-0.0"], "cosh": ["0"], "tanh": ["0", "-0.0"], "arcsinh": ["0", "-0.0"], "arctan": ["0", "-0.0", "1"]}
            if f in ends:
                self.tags.add("func-at-domain-end")
                return r.choice(ends[f])
        if f in ("arcsin", "arccos", "arctanh"):
            return r.choice(["0.3", "0.5", "-0.25", "1/3", "0.1*2", "0", "sin(1)/2", "0.9"])
        if f == "arccosh":
            return r.choice(["1.5", "2", "3+0.5", "10/3", "cosh(1)+1"])
        if f in ("log", "sqrt"):
            return r.choice(["2", "0.5", "pi", "1+1", "10", "2**2", "1/4", "exp(1)", self.float_lit()]) if self.coin(0.8) else self.expr(depth, "if")
        if f in ("exp", "sinh", "cosh"):
            return r.choice(["1", "0.5", "-2", "3", "1/2", "-0.1", "2*2"]) if self.coin(0.6) else self.expr(min(depth, 2), "if")
        return self.expr(depth, "if")

    def int_expr_for(self, value, depth=1):
        """Expression text evaluating to the non-negative integer `value`."""
        r = self.r
        if depth <= 0 or self.coin(0.4):
            names = [n for n, t in self.scalars.items() if t == "int" and self.val_of(n) == value]
            if names and self.coin(0.5):
                return r.choice(names)
            return str(value)
        c = r.random()
        ints = [(n, self.val_of(n)) for n, t in self.scalars.items() if t == "int"]
        if c < 0.35:
            a = r.randint(0, value) if value > 0 else 0
            return self.binop(self.int_expr_for(a, depth - 1), "+", self.int_expr_for(value - a, depth - 1))
        if c < 0.5 and ints:
            n, v = r.choice(ints)
            if v is not None and 0 <= v <= value:
                return self.binop(n, "+", str(value - v))
            if v is not None and v > value:
                return self.binop(n, "-", str(v - value))
        if c < 0.65 and value > 1:
            ds = [d for d in range(2, min(value, 12) + 1) if value % d == 0]
            if ds:
                d = r.choice(ds)
                return self.binop(str(value // d), "*", str(d))
        if c < 0.75:
            a = r.randint(value, value + 9)
            return self.binop(str(a), "-", self.int_expr_for(a - value, 0))
        if c < 0.8 and value in (1, 4, 8, 9, 16, 25, 27, 32, 64, 81, 100):
            for b, e in ((2, 2), (2, 3), (3, 2), (2, 4), (5, 2), (3, 3), (2, 5), (2, 6), (3, 4), (10, 2)):
                if b ** e == value:
                    return "%d**%d" % (b, e)
        if c < 0.86:
            return "(" + self.int_expr_for(value, depth - 1) + ")"
        return str(value)

    def val_of(self, name):
        v = self.it.env.get(name)
        return v.v if isinstance(v, V) else None

    # ----------------------------------------------------------- declarations
    def feed(self, text):
        """Interpret declaration text with the generator's reference interpreter.
        Returns False (and leaves the state unchanged) when the reference does
        not accept it as a valid in-domain declaration."""
        try:
            toks = self.g.tokenize(text + "\n")
            p = refsem._Parser(toks)
            items = p.program()
            if p.peek() != "EOF":
                return False
            self.it.run_items(items)
            return True
        except (refsem.RefSyntax, refsem.IllFormed, OOD, ValueError):
            return False

    def decl_scalar(self, vartype=None, depth=2, name=None):
        r = self.r
        vt = vartype or r.choice(["int", "float", "float", "complex", "bool", "str"] if self.o["complex"] else ["int", "float", "float", "bool", "str"])
        for _ in range(30):
            nm = name or self.ident()
            if vt == "int":
                e = self.int_expr_for(r.randint(0, 9), depth=r.choice([0, 1, 2])) if self.coin(0.6) else self.expr(depth, "i")
            elif vt == "float":
                e = self.expr(depth, "if")
            elif vt == "complex":
                e = self.expr(depth, "ifc")
            elif vt == "bool":
                e = r.choice(["True", "False"])
            else:
                e = self.string()
            if vt == "int" and self.coin(0.07):
                # a float where an int is declared, in the two forms whose conversion is exact: an integral float known
                # without rounding (literal, or a float variable holding one), and a float so large that it is integral
                fl = [n_ for n_, t_ in self.scalars.items() if t_ == "float"]
                e = r.choice(["3.0", "2e3", "1e2", "7E0", "0.0", "-4.0", "12.0", "1e15", "9007199254740993.0", "1e19", "-1e30", "2.5e20",
                              "2.0**70", "-3*1e19", "1e18*4", "2.0**63", "-(2.0**63)", "1e10*1e10"] + fl)
                self.tags.add("int-from-float")
            if vt in ("int", "float", "complex") and self.coin(0.02):
                # the ends of the signed 64-bit range, written as signed literals
                e = r.choice(["-9223372036854775808", "9223372036854775807", "-9223372036854775807", "-(9223372036854775808)", "- 9223372036854775808"])
                self.tags.add("int64-end-initialiser")
            text = "%s %s%s=%s%s" % (vt, nm, self.sp(), self.sp(), e)
            before = dict(self.it.env)
            if self.feed(text) and nm in self.it.env and isinstance(self.it.env[nm], (V, refsem.Sym)):
                if isinstance(self.it.env[nm], refsem.Sym):
                    # parameter-valued variable: keep out of later arithmetic bookkeeping
                    self.scalars[nm] = "sym"
                else:
                    self.scalars[nm] = vt
                self.arrays.pop(nm, None)
                return text
            self.it.env.clear()
            self.it.env.update(before)
        return None

    def decl_array(self, vartype=None, rows=None, cols=None, shape=None, name=None, param_p=None, indent=None):
        r = self.r
        vt = vartype or r.choice(["int", "float", "complex"] if self.o["complex"] else ["int", "float"])
        kinds = {"int": "i", "float": "if", "complex": "ifc"}[vt]
        rows = rows or r.choice([1, 1, 2, 2, 3, 4, 5] + ([8, 12, 1] if self.o["big"] else []))
        cols = cols or r.choice([1, 2, 2, 3, 3, 4, 6] + ([9, 16, 40] if self.o["big"] else []))
        pp = self.o["array_params"] if param_p is None else param_p
        for _ in range(30):
            nm = name or self.ident()
            has_param = False
            lines = []
            for i in range(rows):
                els = []
                for j in range(cols):
                    if self.coin(pp if vt != "int" else pp * 0.6) and not (rows == 1 and cols == 1):
                        els.append("{%s}" % self.param())
                        if vt == "int":
                            # a parameter among the elements of an int array: its values should be integers
                            self.int_params.add(els[-1][1:-1])
                            self.tags.add("int-array-with-param")
                        has_param = True
                    else:
                        saved = self.o["params"]
                        self.o["params"] = 0.0
                        els.append(self.expr(r.choice([0, 0, 0, 1, 2]), kinds) if vt != "int" else (self.int_lit() if self.coin(0.7) else self.expr(1, "i")))
                        if vt == "int" and self.coin(0.04):
                            # an integral float (or a float variable) among the elements of an int array, next to integers
                            # that a detour through float64 would round
                            fl = [n_ for n_, t_ in self.scalars.items() if t_ == "float"]
                            els[-1] = r.choice(["3.0", "2e1", "7E0", "-4.0", "0.0", "1e3"] + fl)
                            if j + 1 < cols or i + 1 < rows or len(els) > 1:
                                k_ = r.randrange(len(els)) if len(els) > 1 else 0
                                if len(els) > 1 and k_ != len(els) - 1:
                                    els[k_] = r.choice(["9007199254740993", "4611686018427387905", "-9007199254740995", "9223372036854775807"])
                            self.tags.add("int-array-float-element")
                        self.o["params"] = saved
                ind = indent if indent is not None else r.choice(["    ", "    ", "\t"])
                lines.append(ind + (", " if self.coin(0.8) else " , ").join(els))
            declshape = shape if shape is not None else self.coin(0.4)
            head = "%s array %s%s %s" % (vt, nm, "[%d, %d]" % (rows, cols) if declshape else "", "=")
            text = "\n".join([head] + lines)
            before = dict(self.it.env)
            pn_before = list(self.it.prog.pnames)
            if self.feed(text) and isinstance(self.it.env.get(nm), refsem.Arr):
                self.arrays[nm] = (vt, rows, cols, has_param)
                self.scalars.pop(nm, None)
                if has_param:
                    self.tags.add("array-with-param")
                return text
            self.it.env.clear()
            self.it.env.update(before)
            self.it.prog.pnames[:] = pn_before
        return None

    # -------------------------------------------------------------- arguments
    def value_text(self, depth=2, allow_str=True, allow_sym=True):
        """One argument value: expression, literal, variable, string, bool."""
        r = self.r
        c = r.random()
        if self.coin(0.012):
            # integer literals at and beyond the ends of the signed/unsigned 64-bit ranges, with and without a sign
            self.tags.add("int-beyond-int64")
            return r.choice(["9223372036854775808", "-9223372036854775808", "-9223372036854775809", "9223372036854775807", "18446744073709551615",
                             "18446744073709551616", "-18446744073709551616", "100000000000000000000", "-(9223372036854775808)", "+9223372036854775808",
                             "-9223372036854775807", "1" + "0" * 30])
        if allow_sym and self.o["params"] and self.coin(0.04):
            # a power with a numeric base of extreme magnitude (exponent notation) and a symbolic exponent, negated or
            # subtracted: the forms whose printed text needs brackets to keep its meaning
            big = r.choice(["3e15", "2.5e18", "1e16", "1.0e+20", "9.9e15", "1e22", "2.5e-5", "1e-7", "1.5e-12", "4.0E+1"])
            self.tags.add("extreme-base-power-of-parameter")
            pw = "%s**{%s}" % (big, self.param())
            return r.choice(["-(%s)", "-%s", "{" + self.param() + "} - %s", "1 - 2*%s", "-(%s)*2"]) % pw
        if c < 0.20:
            if allow_str:
                if c < 0.08:
                    return self.string()
                if c < 0.14:
                    return r.choice(["True", "False"])
                names = [n for n, t in self.scalars.items() if t in ("bool", "str")]
                if names:
                    return r.choice(names)
        elif c < 0.30:
            names = [n for n in self.scalars if self.scalars[n] != "sym" or allow_sym]
            if names:
                return r.choice(names)
        elif c < 0.38:
            if self.arrays and allow_sym:
                return r.choice(list(self.arrays))
        elif c < 0.38 + self.o["regrefs"]:
            if allow_sym:
                return self.reg_expr(depth)
        saved = self.o["params"]
        if not allow_sym:
            self.o["params"] = 0.0
        try:
            e = self.expr(depth, "ifc")
            if allow_sym and saved and self.coin(self.o["complex_coeff"]):
                self.tags.add("complex-coeff-sym")
                e = self.binop(self.complex_lit(), "*", "{%s}" % self.param())
            return e
        finally:
            self.o["params"] = saved

    def reg_expr(self, depth=2):
        """Polynomial/rational expression over measured registers."""
        r = self.r
        regnums = [0, 1, 2, 3, 5, 7, 10, 12, 31, 64, 120]
        if self.coin(0.15):
            regnums = regnums + [99, 100, 200, 999, 1000, 1001, 1234, 9999, 10000, 65535, 100000]
        regs = ["q%d" % r.choice(regnums) for _ in range(r.choice([1, 1, 2, 2, 3, 4, 5]))]
        if self.coin(0.12):
            # the same registers written with leading zeros (REGREF is 'q' followed by any digits)
            regs = [("q" + "0" * r.choice([1, 2]) + q[1:]) if self.coin(0.6) else q for q in regs]

        def term(d):
            c = r.random()
            if d <= 0 or c < 0.3:
                if self.coin(0.65):
                    return r.choice(regs)
                names = [n for n, t in self.scalars.items() if t in ("int", "float")]
                if names and self.coin(0.3):
                    return r.choice(names)
                return self.num_lit("if") if self.coin(0.8) else "pi"
            if c < 0.75:
                op = r.choice(["+", "-", "*", "*", "/"])
                b = term(d - 1)
                if op == "/" and self.coin(0.6):
                    b = r.choice(["2", "3", "0.5", "1.5", "4", "pi", "2.5e+1"])
                a = term(d - 1)
                if a == b and op in "-/":
                    op = "+"
                if op == "*" and (a in ("0", "00", "0.0") or b in ("0", "00", "0.0")):
                    op = "+"
                return self.binop(a, op, b)
            if c < 0.85:
                return "(" + term(d - 1) + ")"
            if c < 0.91:
                # (negative integer exponents too: written with **, not as a division)
                return self.binop(term(d - 1), "**", r.choice(["2", "3", "2", "1", "-1", "-2", "-3", "- 2"]))
            if c < 0.94:
                # a fractional power of an even power: real for every real measurement value, and a formula that must not
                # be "simplified" as if the measured values were real and positive
                self.tags.add("regref-fractional-power")
                return "(" + self.binop(term(d - 1), "**", r.choice(["2", "2", "4"])) + ")" + self.sp() + "**" + self.sp() + r.choice(["0.5", "1.5", "0.25", "2.5e-1"])
            return "-" + term(d - 1)

        e = term(depth)
        if not any(q in e for q in regs):
            e = self.binop(e, r.choice(["+", "*"]), r.choice(regs))
        return e

    def arguments(self, nmax=3, depth=2, allow_str=True, allow_sym=True, force=False):
        """Text of an argument list including the brackets."""
        r = self.r
        npos = r.choice([0, 1, 1, 2, 2, 3][: nmax + 3] + ([6, 9] if self.o["big"] else [])) if nmax else 0
        pos = [self.value_text(depth, allow_str, allow_sym) for _ in range(npos)]
        kws = []
        used = set()
        for _ in range(r.choice([0, 0, 1, 1, 2, 3] + ([7, 10] if self.o["big"] else []))):
            k = self.ident(fresh=False)
            if self.coin(0.06):
                # names the package uses itself for fields of an operation / a graph node / a program
                k = r.choice(["modes", "args", "kwargs", "op", "idx", "options", "parameters", "variables", "operations", "self", "cls", "key", "val", "expr", "func", "regrefs"])
                if not self.is_name(k):
                    continue
                self.tags.add("keyword-named-like-a-field")
            if k in used:
                continue
            used.add(k)
            if self.coin(self.o["kwlists"]):
                n = r.choice([1, 1, 2, 3, 4] + ([12, 30] if self.o["big"] else []))
                if self.coin(self.o["empty_list"]):
                    n = 0
                    self.tags.add("empty-list-kwarg")
                els = [self.list_element(allow_str, allow_sym) for _ in range(n)]
                kws.append("%s=[%s]" % (k, ", ".join(els)))
            else:
                kws.append("%s=%s" % (k, self.value_text(depth, allow_str, allow_sym)))
        if force and not pos and not kws:
            pos = [self.value_text(depth, allow_str, allow_sym)]
        parts = pos + kws
        body = ", ".join(parts)
        if pos and not kws and self.coin(0.05):
            body += ","
        return "(" + body + ")"

    def list_element(self, allow_str=True, allow_sym=True):
        r = self.r
        c = r.random()
        if c < 0.15 and allow_str:
            return self.string()
        if c < 0.25 and allow_str:
            return r.choice(["True", "False"])
        saved_r = self.o["regrefs"]
        self.o["regrefs"] = 0.0
        try:
            names = [n for n, t in self.scalars.items() if t in ("int", "float", "complex")]
            if c < 0.4 and names:
                return r.choice(names)
            saved = self.o["params"]
            if not allow_sym:
                self.o["params"] = 0.0
            try:
                return self.expr(r.choice([0, 0, 1, 2]), "ifc")
            finally:
                self.o["params"] = saved
        finally:
            self.o["regrefs"] = saved_r

    # ------------------------------------------------------------- statements
    def modes_text(self, modes, depth=1, loopvar=None):
        r = self.r
        parts = []
        for m in modes:
            if isinstance(m, str):
                parts.append(m)
            else:
                parts.append(self.int_expr_for(m, depth=r.choice([0, 0, 0, depth])))
        body = ", ".join(parts)
        style = r.choice(["plain", "plain", "sq", "rd", "sq", "mix1", "mix2"])
        if style == "plain":
            return body
        if style == "sq":
            return "[" + body + "]"
        if style == "rd":
            return "(" + body + ")"
        if style == "mix1":
            return "(" + body + "]"
        return "[" + body + ")"

    def pick_modes(self, nmax=4, pool=None):
        r = self.r
        n = r.choice([1, 1, 1, 2, 2, 3, 4][: nmax + 3] + ([7, 12] if self.o["big"] and nmax >= 4 else []))
        pool = pool or list(range(0, 8)) + [r.randint(0, self.o["max_mode"])] + ([r.choice([121, 255, 256, 1000, 4096, 65535, 10 ** 6])] + list(range(8, 20)) if self.o["big"] else [])
        ms = []
        for _ in range(n):
            m = r.choice(pool)
            if m not in ms:
                ms.append(m)
        return ms

    def statement(self, modes=None, op=None, depth=2, allow_str=True, allow_sym=True, arglist=None):
        r = self.r
        op = op or self.opname()
        modes = modes if modes is not None else self.pick_modes()
        if arglist is None:
            c = r.random()
            if c < 0.2:
                arglist = ""
            elif c < 0.27:
                arglist = "()"
            else:
                arglist = self.arguments(depth=depth, allow_str=allow_str, allow_sym=allow_sym)
        bar = r.choice([" | ", " | ", "|", " |", "| "]) if self.coin(self.o["layout"]) else " | "
        return op + arglist + bar + self.modes_text(modes)

    # ---------------------------------------------------------------- wrappers
    def metadata(self, name=None, target=None, ptype=None, version=None):
        r = self.r
        nm = name or self.ident()
        ver = version or r.choice(["1.0", "1.0", "1.0", "0.1", "2.3", "1.00", "10.25", "1e0", "0.0"])
        lines = ["name " + nm, "version " + ver]
        if target is None:
            target = self.coin(self.o["options"])
        if target:
            dev = r.choice(DEVICES)
            opts = self.options_text()
            lines.append("target " + dev + ((" " if self.coin(0.8) else "") + opts if opts else ""))
        if ptype is None:
            ptype = self.o["tdm"] or self.coin(0.15)
        if ptype:
            tn = "tdm" if self.o["tdm"] else self.ident(fresh=False)
            opts = self.options_text() if not self.o["tdm"] else "(temporal_modes=%d)" % r.randint(1, 5)
            lines.append("type " + tn + (" " + opts if opts else ""))
        return lines, nm

    def options_text(self):
        r = self.r
        if self.coin(0.3):
            return ""
        n = r.choice([1, 1, 2, 3])
        parts = []
        used = set()
        for _ in range(n):
            k = r.choice(["shots", "cutoff_dim", "num_subsystems", "backend", "hbar", "copies", "flag", "mask", "label"] if self.coin(0.7) else [self.ident(fresh=False)])
            if k in used:
                continue
            used.add(k)
            c = r.random()
            if self.o.get("opt_params", 0.0) and self.coin(self.o["opt_params"]):
                # a template parameter inside a metadata option (only checks that do not need the reference's verdict ask for this)
                v = r.choice(["{%s}", "2*{%s}", "{%s} + 1"]) % self.param()
                self.tags.add("parameter-in-metadata-option")
            elif c < 0.35:
                v = self.int_lit(0, 100)
            elif c < 0.5:
                v = self.float_lit()
            elif c < 0.6:
                v = self.string()
            elif c < 0.7:
                v = r.choice(["True", "False"])
            elif c < 0.8 and self.o["complex"]:
                v = self.complex_lit()
            elif c < 0.9:
                els = [r.choice([self.int_lit(), self.float_lit(), self.string(), "True"]) for _ in range(r.randint(1, 4))]
                v = "[" + ", ".join(els) + "]"
            else:
                v = self.binop(self.int_lit(1, 9), r.choice(["+", "*", "-", "/"]), self.int_lit(1, 9))
            parts.append("%s=%s" % (k, v))
        return "(" + ", ".join(parts) + ")"


# ---------------------------------------------------------------------- scripts


def render(lines, rng, layout=0.0, final_newline=True):
    """Join lines; optionally sprinkle insignificant layout that keeps the text
    grammatical (blank lines and comments between top-level items)."""
    out = []
    for ln in lines:
        if layout and rng.random() < layout * 0.3 and not ln.startswith(("    ", "\t")) and out and not out[-1].startswith("for "):
            out.append(rng.choice(["", "# comment", "", "#", "# G(1) | 0"]))
        if layout and rng.random() < layout * 0.2 and "\n" not in ln:
            ln = ln + rng.choice([" ", "  ", " # c", "# c", " #"])
        out.append(ln)
    s = "\n".join(out)
    if final_newline:
        s += "\n"
    return s


def script(rng, grammar, n_stmts=(3, 12), **opts):
    """A random valid-ish script exercising the whole language.
    Returns (text, info) with info = {'tags': set, 'params': [...]}."""
    opts = dict(opts)
    if "big" not in opts:
        opts["big"] = rng.random() < opts.pop("big_p", 0.06)
    else:
        opts.pop("big_p", None)
    g = Gen(rng, grammar, **opts)
    r = rng
    if g.o["big"]:
        g.tags.add("big")
        n_stmts = (n_stmts[0], n_stmts[1] * r.choice([1, 3, 8]))
    lines, name = g.metadata()
    lines.append("")
    body = []
    n = r.randint(*n_stmts)
    ndecl = r.choice([0, 1, 2, 3, 4, 5])
    made = 0
    while made < n:
        c = r.random()
        if ndecl > 0 and c < 0.35:
            ndecl -= 1
            # now and then a variable is declared again (later statements must see the new value)
            redo = g.coin(g.o.get("redeclare", 0.15))
            if g.coin(g.o["arrays"]):
                if g.o["tdm"] and g.coin(0.6):
                    t = g.decl_array(name="p%d" % r.choice([0, 1, 2, 3, 7, 42]), rows=r.choice([1, 1, 2]), param_p=0.0)
                else:
                    old = [n_ for n_ in g.arrays if n_ not in g.it.prog.pnames]
                    plike = r.choice(["p0_left", "p1a", "pp0", "p2x", "ppp12", "p_1", "p1_0", "p10_2", "p0_0", "p1_", "p1_000"]) if g.o["tdm"] and g.coin(0.3) else None
                    if plike and plike not in g.used:
                        g.used.add(plike)
                        t = g.decl_array(name=plike, param_p=0.0)
                        g.tags.add("tdm-plike-array-name")
                    else:
                        t = g.decl_array(name=r.choice(old)) if redo and old else g.decl_array()
                    if redo and old and t:
                        g.tags.add("redeclared-array")
            else:
                old = [n_ for n_, k_ in g.scalars.items() if k_ in ("int", "float", "complex")]
                if redo and old:
                    nm_ = r.choice(old)
                    t = g.decl_scalar(vartype=g.scalars[nm_], name=nm_)
                    if t:
                        g.tags.add("redeclared-scalar")
                else:
                    t = g.decl_scalar()
            if t:
                body.extend(t.split("\n"))
            continue
        if c < 0.35 + g.o["loops"] * 0.4:
            lp = loop(g)
            if lp:
                body.extend(lp)
                made += 1
            continue
        body.append(g.statement())
        made += 1
    lines.extend(body)
    text = render(lines, r, layout=g.o["layout"], final_newline=True)
    return text, {"tags": set(g.tags), "params": list(g.params), "name": name, "gen": g}


def loop(g, body_n=None, var=None):
    """Lines of a for loop (header + indented body)."""
    r = g.r
    var = var or g.ident()
    vt = r.choice(["int", "int", "int", "float", "bool", "str"])
    c = r.random()
    if vt in ("int", "float") and c < 0.5:
        a = r.randint(0, 5)
        b = a + r.choice([0, 1, 2, 3, 4, 6] + ([17, 40] if g.o["big"] else []) + ([33, 50] if r.random() < 0.04 else []))
        if g.coin(0.1):
            b = r.randint(0, a)
        hdr = "%d:%d" % (a, b)
        if g.coin(0.4):
            hdr += ":%d" % r.randint(1, 3)
        vals = None
    else:
        n = r.choice([1, 2, 2, 3, 4])
        if vt == "int":
            vals = [g.int_expr_for(r.randint(0, 9), depth=r.choice([0, 0, 1])) for _ in range(n)]
        elif vt == "float":
            saved = g.o["params"]
            g.o["params"] = 0.0
            vals = [r.choice([g.float_lit(), g.int_lit(), g.expr(1, "if")]) for _ in range(n)]
            g.o["params"] = saved
        elif vt == "bool":
            vals = [r.choice(["True", "False"]) for _ in range(n)]
        else:
            vals = [g.string() for _ in range(n)]
        body = ", ".join(vals)
        hdr = r.choice(["[%s]", "(%s)", "%s", "[%s]"]) % body
    lines = ["for %s %s in %s" % (vt, var, hdr)]
    # make the loop variable visible to the generator while it builds the body
    g.it.env[var] = {"int": V("i", 1), "float": V("f", 1.0), "bool": V("b", True), "str": V("s", "x")}[vt]
    g.scalars[var] = vt
    try:
        for _ in range(body_n or r.choice([1, 1, 2, 3, 4])):
            ind = r.choice(["    ", "    ", "\t"])
            if vt == "int":
                use = r.random()
                if use < 0.5:
                    ms = [var] + [m for m in g.pick_modes(2, pool=list(range(20, 30)))][: r.choice([0, 0, 1])]
                    st = g.statement(modes=ms)
                else:
                    st = g.statement(arglist=r.choice(["(%s)" % var, "(%s*2, k=%s)" % (var, var), "(k=[%s, 1])" % var, "(%s+1)" % var, "(2**%s)" % var]))
            elif vt == "float":
                st = g.statement(arglist=r.choice(["(%s)" % var, "(%s/2, 1)" % var, "(k=%s)" % var, "(sin(%s))" % var, "(k=[%s])" % var, "(-%s**2)" % var]))
            else:
                st = g.statement(arglist=r.choice(["(%s)" % var, "(k=%s)" % var, "(1, %s)" % var, "(k=[%s])" % var]))
            lines.append(ind + st)
    finally:
        g.it.env.pop(var, None)
        g.scalars.pop(var, None)
    return lines
