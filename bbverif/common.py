"""Helpers shared by the checks."""
import glob
import json
import os
import re
import traceback

from . import content, env, g4ref, refsem
from .refnum import OOD

_g = None


def grammar():
    global _g
    if _g is None:
        try:
            _g = g4ref.load(env.grammar_path())
        except g4ref.G4Unsupported as e:
            from .runner import Inconclusive

            raise Inconclusive("grammar construct not understood: %s" % e)
    return _g


def classify(text, fs=None, filename=None, allow_func=False, convert_debatable=False):
    """Reference verdict on a script text:
    ('ok', RefProgram) | ('ood', reason) | ('ill', IllFormed) | ('nosentence', first_bad_index, tokens)
    | ('refbug', message)  - reference parser disagrees with the recogniser (machinery error)."""
    g = grammar()
    try:
        ok, bad, toks = g.is_sentence(text)
    except ValueError as e:
        return ("refbug", str(e))
    if not ok:
        return ("nosentence", bad, toks)
    try:
        ref = refsem.run(text, g, fs=fs, filename=filename, tokens=toks, allow_func=allow_func, convert_debatable=convert_debatable)
    except OOD as e:
        return ("ood", e.reason)
    except refsem.IllFormed as e:
        return ("ill", e)
    except refsem.RefSyntax as e:
        return ("refbug", "reference parser rejected a sentence: %s" % e)
    return ("ok", ref)


def stage_of(exc):
    """Innermost frame inside the blackbird package that the exception passed
    through: 'file.py:function'."""
    tb = traceback.extract_tb(exc.__traceback__)
    pkg = env.repo_path("blackbird_python", "blackbird") + os.sep
    st = None
    for fr in tb:
        if fr.filename.startswith(pkg):
            st = "%s:%s" % (os.path.basename(fr.filename), fr.name)
    return st or "outside-package"


def exc_key(exc):
    msg = str(exc)
    msg = re.sub(r"\(line \d+:\d+\)", "(line L:C)", msg)
    msg = re.sub(r"'[^']*'", "'S'", msg)
    msg = re.sub(r'"[^"]*"', "'S'", msg)
    msg = re.sub(r"\b(var|Var|variable|array|Array var|parameter|operation) \w+", r"\1 X", msg)
    msg = re.sub(r"\d+(\.\d+)?", "N", msg)
    return "%s@%s:%s" % (type(exc).__name__, stage_of(exc), msg[:60])


def exc_text(exc):
    return "%s: %s" % (type(exc).__name__, str(exc)[:300])


def real_loads(text):
    import blackbird

    try:
        return blackbird.loads(text), None
    except Exception as e:  # noqa: every exception class is an observation here
        return None, e


_IDX = re.compile(r"\[[0-9, ]+\]")


def diff_key(diffs):
    """Mechanism key of a list of differences: reasons and paths with the
    concrete indices and names removed."""
    reasons = []
    for (path, reason, a, b) in diffs[:4]:
        p = _IDX.sub("[]", path)
        p = re.sub(r"\.kwargs\.[^.\[]+", ".kwargs.K", p)
        p = re.sub(r"\.options\.[^.\[]+", ".options.K", p)
        p = re.sub(r"variables\.[^.\[]+", "variables.V", p)
        k = "%s:%s" % (p, reason)
        if k not in reasons:
            reasons.append(k)
    return "diff:" + "|".join(sorted(reasons)[:3])


def diff_text(diffs, limit=4):
    return "; ".join("%s %s: expected %s, got %s" % d for d in diffs[:limit])


def corpus(pid):
    """Seed corpus entries for a property: list of dicts."""
    out = []
    for p in sorted(glob.glob(os.path.join(env.VERIF, "corpus", pid, "*.json"))):
        with open(p) as f:
            d = json.load(f)
        if isinstance(d, list):
            for x in d:
                x.setdefault("file", os.path.basename(p))
                out.append(x)
        else:
            d.setdefault("file", os.path.basename(p))
            out.append(d)
    return out


def content_of(prog):
    return content.program_content(prog)


class Timeout(Exception):
    pass


class watchdog_paused:
    """While the machinery itself computes (digests around a hooked call), a pending time_limit must not fire: the
    limit bounds the repository's code, and a firing inside the machinery would turn wall-clock time into data."""

    def __enter__(self):
        import signal

        self._left = signal.setitimer(signal.ITIMER_REAL, 0)[0]
        return self

    def __exit__(self, *a):
        import signal

        if self._left > 0:
            signal.setitimer(signal.ITIMER_REAL, self._left)
        return False


class time_limit:
    """Bound one call by wall-clock time (main thread only).  Firing is an
    observation ('inconclusive for this call'), never a verdict."""

    def __init__(self, seconds):
        self.seconds = seconds

    def __enter__(self):
        import signal

        def handler(signum, frame):
            raise Timeout()

        self._old = signal.signal(signal.SIGALRM, handler)
        signal.setitimer(signal.ITIMER_REAL, self.seconds)
        return self

    def __exit__(self, *a):
        import signal

        signal.setitimer(signal.ITIMER_REAL, 0)
        signal.signal(signal.SIGALRM, self._old)
        return False
