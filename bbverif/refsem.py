"""Reference interpreter for Blackbird scripts - the executable specification.

Written from the property statements, ``doc/syntax.rst`` and the grammar file
(Appendix A of DESIGN.md lists the rules).  It shares no code with the
``blackbird`` package: it consumes the token stream of :mod:`g4ref`, parses it
with a hand-written recursive-descent parser that mirrors the grammar's rule
structure and the binding order stated in C03, and evaluates with
:mod:`refnum`.

Outcomes of :func:`run`:

* a :class:`RefProgram`                       - the script is valid and in domain
* :class:`IllFormed` (kind, name, line, col)  - grammatical but ill-formed (C05, C06, C11)
* :class:`refnum.OOD`                         - outside the quantifier of the properties
* :class:`RefSyntax`                          - not a sentence (the Earley recogniser is the
                                                authority; this parser must agree with it)
"""
import math
import random
import os
import re

from . import refnum
from .refnum import OOD, V

FUNC_TOKENS = {
    "SQRT": "sqrt", "SIN": "sin", "COS": "cos", "TAN": "tan", "ARCSIN": "arcsin", "ARCCOS": "arccos",
    "ARCTAN": "arctan", "SINH": "sinh", "COSH": "cosh", "TANH": "tanh", "ARCSINH": "arcsinh",
    "ARCCOSH": "arccosh", "ARCTANH": "arctanh", "EXP": "exp", "LOG": "log",
}
VARTYPES = {"TYPE_ARRAY": "array", "TYPE_FLOAT": "float", "TYPE_COMPLEX": "complex", "TYPE_INT": "int",
            "TYPE_STR": "str", "TYPE_BOOL": "bool"}
KIND_OF_TYPE = {"int": "i", "float": "f", "complex": "c", "bool": "b", "str": "s"}
RESERVED = ("PROGNAME", "VERSION", "TARGET", "PROGTYPE")
PTYPE = re.compile(r"^p[0-9]+$")


class RefSyntax(Exception):
    pass


class IllFormed(Exception):
    """Grammatical but ill-formed script."""

    def __init__(self, kind, name=None, line=None, col=None, detail=""):
        Exception.__init__(self, "%s %s (line %s:%s) %s" % (kind, name, line, col, detail))
        self.kind = kind
        self.name = name
        self.line = line
        self.col = col
        self.detail = detail


class LooseV(V):
    """A number obtained by binding parameters of a symbolic value: compared
    numerically only (SymPy is free to turn 2.0*a into an int or a float)."""

    __slots__ = ()


class Sym:
    """Symbolic value: an expression tree over template parameters and registers."""

    __slots__ = ("tree",)

    def __init__(self, tree):
        self.tree = tree

    def params(self):
        return _leaves(self.tree, "param")

    def regs(self):
        return _leaves(self.tree, "reg")

    def evaluate(self, assignment):
        """assignment: {('param', name) | ('reg', n): V}"""
        return _eval_tree(self.tree, assignment)

    def __repr__(self):
        return "Sym(%s)" % show_tree(self.tree)


def _leaves(t, tag):
    out = set()
    st = [t]
    while st:
        x = st.pop()
        if x[0] == tag:
            out.add(x[1])
        elif x[0] in ("neg", "func"):
            st.append(x[-1])
        elif x[0] == "bin":
            st.append(x[2])
            st.append(x[3])
    return out


def _eval_tree(t, asg):
    k = t[0]
    if k == "num":
        return t[1]
    if k in ("param", "reg"):
        return asg[(k, t[1])]
    if k == "neg":
        return refnum.neg(_eval_tree(t[1], asg))
    if k == "func":
        return refnum.func(t[1], _eval_tree(t[2], asg))
    if k == "bin":
        a = _eval_tree(t[2], asg)
        b = _eval_tree(t[3], asg)
        return _binop(t[1], a, b)
    raise ValueError(k)


def show_tree(t):
    k = t[0]
    if k == "num":
        return repr(t[1].v)
    if k == "param":
        return "{%s}" % t[1]
    if k == "reg":
        return "q%d" % t[1]
    if k == "neg":
        return "-(%s)" % show_tree(t[1])
    if k == "func":
        return "%s(%s)" % (t[1], show_tree(t[2]))
    return "(%s %s %s)" % (show_tree(t[2]), t[1], show_tree(t[3]))


def _binop(op, a, b):
    if op == "+":
        return refnum.add(a, b, 1)
    if op == "-":
        return refnum.add(a, b, -1)
    if op == "*":
        return refnum.mul(a, b)
    if op == "/":
        return refnum.div(a, b)
    if op == "**":
        return refnum.power(a, b)
    raise ValueError(op)


class Arr:
    """A two-dimensional array: element kind and rows of V / Sym(param)."""

    __slots__ = ("kind", "rows")

    def __init__(self, kind, rows):
        self.kind = kind
        self.rows = rows

    @property
    def shape(self):
        return (len(self.rows), len(self.rows[0]) if self.rows else 0)

    def flat(self):
        return [x for r in self.rows for x in r]

    def has_sym(self):
        return any(isinstance(x, Sym) for x in self.flat())

    def __repr__(self):
        return "Arr(%s,%r)" % (self.kind, self.rows)


class PName:
    """A tdm p-array passed by name."""

    __slots__ = ("name",)

    def __init__(self, name):
        self.name = name

    def __repr__(self):
        return "PName(%s)" % self.name


class RefOp:
    __slots__ = ("name", "modes", "args", "kwargs", "line")

    def __init__(self, name, modes, args, kwargs, line):
        self.name = name
        self.modes = modes
        self.args = args  # None: no argument list
        self.kwargs = kwargs  # list of (key, value); None with args None
        self.line = line

    def __repr__(self):
        return "RefOp(%s %r %r | %r)" % (self.name, self.args, self.kwargs, self.modes)


class RefProgram:
    def __init__(self):
        self.name = None
        self.version = None
        self.target = {"name": None, "options": []}
        self.type = {"name": None, "options": []}
        self.includes = {}
        self.ops = []
        self.vars = {}
        self.params = []  # in order of first evaluation
        self.pnames = []  # tdm p-arrays
        self.features = set()
        self.loops = []  # (var, type, values, iterations)
        self.statements_executed = 0

    @property
    def modes(self):
        s = set()
        for o in self.ops:
            s |= set(o.modes)
        return s

    def param_names(self):
        out = []
        for p in self.params:
            if p not in out:
                out.append(p)
        return out


# ------------------------------------------------------------------------ parser


class _Parser:
    """Recursive descent over g4ref tokens producing a small AST."""

    def __init__(self, toks):
        self.t = toks
        self.i = 0
        self.n = len(toks)

    def peek(self, k=0):
        j = self.i + k
        return self.t[j].type if j < self.n else "EOF"

    def tok(self, k=0):
        j = self.i + k
        return self.t[j] if j < self.n else None

    def next(self):
        x = self.t[self.i]
        self.i += 1
        return x

    def accept(self, ty):
        if self.peek() == ty:
            return self.next()
        return None

    def expect(self, ty):
        if self.peek() != ty:
            t = self.tok()
            raise RefSyntax("expected %s got %s at %s" % (ty, self.peek(), (t.line, t.col) if t else "EOF"))
        return self.next()

    def skip_nl(self):
        n = 0
        while self.peek() == "NEWLINE":
            self.i += 1
            n += 1
        return n

    # start : NEWLINE* metadatablock NEWLINE* program NEWLINE* EOF
    def start(self):
        self.skip_nl()
        meta = self.metadatablock()
        self.skip_nl()
        prog = self.program()
        self.skip_nl()
        if self.peek() != "EOF":
            t = self.tok()
            raise RefSyntax("trailing input %s at %s:%s" % (t.type, t.line, t.col))
        return meta, prog

    def metadatablock(self):
        self.expect("PROGNAME")
        name = self.expect("NAME").text
        if self.skip_nl() < 1:
            raise RefSyntax("newline expected after name")
        self.expect("VERSION")
        version = self.expect("FLOAT").text
        target = None
        ptype = None
        includes = []
        save = self.i
        if self.skip_nl() >= 1 and self.peek() == "TARGET":
            self.next()
            if self.peek() in ("NAME", "DEVICE"):
                dev = self.next().text
            else:
                raise RefSyntax("device expected")
            args = self.arguments() if self.peek() == "LBRAC" else None
            target = (dev, args)
        else:
            self.i = save
        save = self.i
        if self.skip_nl() >= 1 and self.peek() == "PROGTYPE":
            self.next()
            tn = self.expect("NAME").text
            args = self.arguments() if self.peek() == "LBRAC" else None
            ptype = (tn, args)
        else:
            self.i = save
        while True:
            if self.peek() == "NEWLINE":
                self.next()
            elif self.peek() == "INCLUDE":
                self.next()
                s = self.expect("STR")
                includes.append((s.text[1:-1], s))
            else:
                break
        return {"name": name, "version": version, "target": target, "type": ptype, "includes": includes}

    def program(self):
        items = []
        while True:
            ty = self.peek()
            if ty == "NEWLINE":
                self.next()
            elif ty == "FOR":
                items.append(self.forloop())
            elif ty in VARTYPES:
                items.append(self.declaration())
            elif ty in ("NAME", "MEASURE"):
                items.append(self.statement(in_loop=False))
            else:
                break
        return items

    def declaration(self):
        first = self.next()
        vartype = VARTYPES[first.type]
        if self.peek() == "TYPE_ARRAY" and self.peek(1) != "ASSIGN":
            # arrayvar : vartype TYPE_ARRAY name (LSQBRAC shape RSQBRAC)? ASSIGN NEWLINE (arrayval | parameter)
            self.next()
            name, ntok, invalid = self.name()
            shape = None
            if self.accept("LSQBRAC"):
                shape = [int(self.expect("INT").text)]
                while self.accept("COMMA"):
                    shape.append(int(self.expect("INT").text))
                self.expect("RSQBRAC")
            self.expect("ASSIGN")
            self.expect("NEWLINE")
            rows = []
            bare_param = None
            if self.peek() == "LBRACE":
                self.next()
                bare_param = self.expect("NAME").text
                self.expect("RBRACE")
            else:
                while self.peek() == "TAB":
                    self.next()
                    row = [self.expression()]
                    while self.accept("COMMA"):
                        row.append(self.expression())
                    self.expect("NEWLINE")
                    rows.append(row)
            return ("arrayvar", vartype, name, ntok, invalid, shape, rows, bare_param, first)
        name, ntok, invalid = self.name()
        self.expect("ASSIGN")
        if self.peek() in ("STR", "BOOL"):
            val = ("lit", self.next())
        else:
            val = self.expression()
        return ("var", vartype, name, ntok, invalid, val, first)

    def name(self):
        t = self.tok()
        if t is None:
            raise RefSyntax("name expected")
        if t.type == "NAME":
            self.next()
            return t.text, t, None
        if t.type == "REGREF":
            self.next()
            return t.text, t, "regref"
        if t.type in RESERVED:
            self.next()
            return t.text, t, "reserved"
        raise RefSyntax("name expected, got %s" % t.type)

    def statement(self, in_loop):
        optok = self.next()
        args = self.arguments() if self.peek() == "LBRAC" else None
        self.expect("APPLY")
        modes = self.modes_part()
        # statement ends with NEWLINE*; inside a loop body a following
        # "NEWLINE TAB statement" belongs to the loop
        if in_loop:
            k = 0
            while self.peek(k) == "NEWLINE":
                k += 1
            if k and self.peek(k) == "TAB":
                self.i += k - 1
            else:
                self.i += k
        else:
            self.skip_nl()
        return ("stmt", optok, args, modes)

    def modes_part(self):
        save = self.i
        if self.peek() in ("LBRAC", "LSQBRAC"):
            # opener consumed
            try:
                self.next()
                row = self.arrayrow()
                if self.peek() in ("RBRAC", "RSQBRAC"):
                    self.next()
                if self.peek() in ("NEWLINE", "EOF"):
                    return row
            except RefSyntax:
                pass
            self.i = save
        row = self.arrayrow()
        if self.peek() in ("RBRAC", "RSQBRAC"):
            self.next()
        if self.peek() not in ("NEWLINE", "EOF"):
            raise RefSyntax("end of statement expected, got %s" % self.peek())
        return row

    def arrayrow(self):
        row = [self.expression()]
        while self.accept("COMMA"):
            row.append(self.expression())
        return row

    def forloop(self):
        ftok = self.expect("FOR")
        vt = self.peek()
        if vt not in VARTYPES:
            raise RefSyntax("loop type expected")
        vartype = VARTYPES[self.next().type]
        var = self.expect("NAME")
        self.expect("IN")
        header = None
        if self.peek() == "INT" and self.peek(1) == "COLON":
            a = int(self.next().text)
            self.next()
            b = int(self.expect("INT").text)
            c = None
            if self.accept("COLON"):
                c = int(self.expect("INT").text)
            header = ("range", a, b, c)
        else:
            if self.peek() in ("LBRAC", "LSQBRAC"):
                # bracket opener or bracketed expression: try opener first
                save = self.i
                try:
                    self.next()
                    vals = self.vallist()
                    if self.peek() in ("RBRAC", "RSQBRAC"):
                        self.next()
                    if self.peek() != "NEWLINE":
                        raise RefSyntax("newline expected after loop header")
                    header = ("list", vals)
                except RefSyntax:
                    self.i = save
            if header is None:
                vals = self.vallist()
                if self.peek() in ("RBRAC", "RSQBRAC"):
                    self.next()
                header = ("list", vals)
        body = []
        while self.peek() == "NEWLINE" and self.peek(1) == "TAB":
            self.next()
            self.next()
            if self.peek() not in ("NAME", "MEASURE"):
                raise RefSyntax("statement expected in loop body")
            body.append(self.statement(in_loop=True))
        if not body:
            raise RefSyntax("loop without body")
        return ("for", vartype, var, header, body, ftok)

    def vallist(self):
        vals = [self.val()]
        while self.accept("COMMA"):
            vals.append(self.val())
        return vals

    def val(self):
        if self.peek() in ("STR", "BOOL"):
            return ("lit", self.next())
        return self.expression()

    # arguments : LBRAC (val (COMMA val)*)? COMMA? (kwarg (COMMA kwarg)*)? RBRAC
    def arguments(self):
        self.expect("LBRAC")
        pos = []
        kw = []

        def at_kwarg():
            return self.peek() == "NAME" and self.peek(1) == "ASSIGN"

        if self.peek() not in ("RBRAC", "COMMA") and not at_kwarg():
            pos.append(self.val())
            while self.peek() == "COMMA" and self.peek(1) not in ("RBRAC",) and not (
                self.peek(1) == "NAME" and self.peek(2) == "ASSIGN"
            ):
                self.next()
                pos.append(self.val())
        self.accept("COMMA")
        if at_kwarg():
            kw.append(self.kwarg())
            while self.accept("COMMA"):
                kw.append(self.kwarg())
        self.expect("RBRAC")
        return (pos, kw)

    def kwarg(self):
        k = self.expect("NAME")
        self.expect("ASSIGN")
        if self.peek() == "LSQBRAC":
            self.next()
            vals = []
            if self.peek() != "RSQBRAC":
                vals = self.vallist()
            self.expect("RSQBRAC")
            return (k.text, ("list", vals), k)
        return (k.text, self.val(), k)

    # expressions: brackets > unary sign > ** (right) > * / > + - (left)
    def expression(self, p=0):
        left = self.primary()
        while True:
            k = self.peek()
            if k == "PWR" and p <= 8:
                self.next()
                right = self.expression(8)
                left = ("bin", "**", left, right)
            elif k in ("TIMES", "DIVIDE") and p <= 7:
                self.next()
                right = self.expression(8)
                left = ("bin", "*" if k == "TIMES" else "/", left, right)
            elif k in ("PLUS", "MINUS") and p <= 6:
                self.next()
                right = self.expression(7)
                left = ("bin", "+" if k == "PLUS" else "-", left, right)
            else:
                return left

    def primary(self):
        k = self.peek()
        t = self.tok()
        if k == "LBRAC":
            self.next()
            v = self.expression(0)
            self.expect("RBRAC")
            return ("paren", v)
        if k in ("PLUS", "MINUS"):
            self.next()
            v = self.expression(9)
            return ("pos", v) if k == "PLUS" else ("neg", v)
        if k in FUNC_TOKENS:
            self.next()
            self.expect("LBRAC")
            v = self.expression(0)
            self.expect("RBRAC")
            return ("func", FUNC_TOKENS[k], v)
        if k in ("INT", "FLOAT", "COMPLEX", "PI"):
            self.next()
            return ("num", k, t.text)
        if k == "REGREF":
            self.next()
            return ("reg", int(t.text[1:]), t)
        if k == "NAME":
            self.next()
            if self.peek() == "LSQBRAC":
                self.next()
                idx = self.expression(0)
                self.expect("RSQBRAC")
                return ("idx", t.text, idx, t)
            return ("var", t.text, t)
        if k == "LBRACE":
            self.next()
            n = self.expect("NAME")
            self.expect("RBRACE")
            return ("param", n.text, t)
        raise RefSyntax("unexpected %s in expression at %s" % (k, (t.line, t.col) if t else "EOF"))


def parse_tokens(toks):
    return _Parser(toks).start()


# --------------------------------------------------------------------- evaluator


class Interp:
    def __init__(self, grammar, fs=None, filename=None, depth=0):
        self.g = grammar
        self.fs = fs
        self.filename = filename
        self.depth = depth
        self.env = {}
        self.prog = RefProgram()
        self.in_metadata = True
        self.loopvars = set()
        self.declared = set()
        # a bool listed in an int/float loop, or a 0/1 in a bool loop: the
        # statement leaves open whether that is "of the loop type".  By default
        # out of domain; with convert_debatable the reference converts the value
        # (what an accepting implementation has to bind) and flags the program,
        # so a check can accept "refused" or "bound to the converted value".
        self.convert_debatable = False
        self.meta_params = False

    def feat(self, f):
        self.prog.features.add(f)

    # ---- expressions
    def ev(self, e):
        k = e[0]
        if k == "num":
            ty, text = e[1], e[2]
            self.feat("lit:" + ty)
            if ty == "INT":
                iv = int(text)
                if not (refnum.I64[0] <= iv <= refnum.I64[1]):
                    self.feat("lit:int-beyond-int64")
                    return refnum.BigV("i", iv)
                return refnum.chk(V("i", iv))
            if ty == "FLOAT":
                return refnum.chk(V("f", float(text)))
            if ty == "COMPLEX":
                return refnum.chk(V("c", complex(text)))
            return V("f", math.pi)
        if k == "paren":
            self.feat("expr:brackets")
            return self.ev(e[1])
        if k == "pos":
            self.feat("expr:sign")
            v = self.ev(e[1])
            self.need_arith(v)
            return v
        if k == "neg":
            self.feat("expr:sign")
            v = self.ev(e[1])
            self.need_arith(v)
            if isinstance(v, Sym):
                return Sym(("neg", v.tree))
            if isinstance(v, refnum.ApproxInt):
                raise OOD("int64 range")
            if v.big:
                # the sign of a literal: -9223372036854775808 is the smallest 64-bit integer
                nv = -v.v
                return V("i", nv) if refnum.I64[0] <= nv <= refnum.I64[1] else refnum.BigV("i", nv)
            return refnum.neg(v)
        if k == "bin":
            op = e[1]
            self.feat("expr:" + {"+": "add", "-": "add", "*": "mul", "/": "mul", "**": "power"}[op])
            a = self.ev(e[2])
            b = self.ev(e[3])
            self.need_arith(a)
            self.need_arith(b)
            if op == "/":
                self.feat("div:by-int" if isinstance(b, V) and b.k == "i" else "div:by-other")
            if isinstance(a, Sym) or isinstance(b, Sym):
                ta = a.tree if isinstance(a, Sym) else ("num", a)
                tb = b.tree if isinstance(b, Sym) else ("num", b)
                return Sym(("bin", op, ta, tb))
            return _binop(op, a, b)
        if k == "func":
            self.feat("func:" + e[1])
            a = self.ev(e[2])
            self.need_arith(a)
            if isinstance(a, Sym):
                self.feat("function-of-symbol")
                return Sym(("func", e[1], a.tree))
            return refnum.func(e[1], a)
        if k == "reg":
            self.feat("regref")
            return Sym(("reg", e[1]))
        if k == "param":
            self.feat("param")
            if self.in_metadata:
                if not self.meta_params:
                    raise OOD("template parameter in metadata")
                # C07 only: the option holds the symbol; whether such a name is reported as a free parameter is not
                # settled by any statement, so it is not recorded among the written parameters
                self.feat("metadata-param")
                return Sym(("param", e[1]))
            self.prog.params.append(e[1])
            return Sym(("param", e[1]))
        if k == "var":
            name, t = e[1], e[2]
            self.feat("expr:variable")
            if name not in self.env:
                raise IllFormed("undefined", name, t.line, t.col)
            if name in self.prog.pnames:
                return PName(name)
            return self.env[name]
        if k == "idx":
            name, t = e[1], e[3]
            self.feat("expr:arrayidx")
            if name not in self.env:
                raise IllFormed("undefined", name, t.line, t.col)
            i = self.ev(e[2])
            arr = self.env[name]
            if not isinstance(arr, Arr):
                raise OOD("index into non-array")
            if not (isinstance(i, V) and i.k == "i") or i.big:
                raise OOD("non-integer index")
            flat = arr.flat()
            if not (0 <= i.v < len(flat)):
                raise OOD("index out of range")
            return flat[i.v]
        raise ValueError(k)

    def need_arith(self, v):
        if isinstance(v, Sym):
            return
        if isinstance(v, V) and v.k in "ifc":
            return
        raise OOD("arithmetic on %s" % type(v).__name__ if not isinstance(v, V) else "arithmetic on bool/str")

    def ev_val(self, node):
        if node[0] == "lit":
            t = node[1]
            if t.type == "STR":
                self.feat("lit:STR")
                return V("s", t.text.replace('"', ""))
            self.feat("lit:BOOL")
            return V("b", t.text == "True")
        return self.ev(node)

    def ev_arguments(self, args):
        pos, kw = args
        pvals = [self.ev_val(x) for x in pos]
        kvals = []
        seen = set()
        for (k, node, tok) in kw:
            if k in seen:
                raise OOD("repeated keyword")
            seen.add(k)
            if node[0] == "list":
                self.feat("kwarg-list")
                if not node[1]:
                    self.feat("kwarg-list-empty")
                kvals.append((k, [self.ev_val(x) for x in node[1]]))
            else:
                kvals.append((k, self.ev_val(node)))
        if pvals:
            self.feat("args")
        if kvals:
            self.feat("kwargs")
        return pvals, kvals

    # ---- metadata
    def run_meta(self, meta):
        p = self.prog
        p.name = meta["name"]
        p.version = meta["version"]
        if meta["target"]:
            dev, args = meta["target"]
            p.target["name"] = dev
            self.feat("target")
            if args:
                pv, kv = self.ev_arguments(args)
                p.target["options"] = kv
                if kv:
                    self.feat("target-options")
                if pv:
                    self.feat("positional-option")
        if meta["type"]:
            tn, args = meta["type"]
            p.type["name"] = tn
            self.feat("type")
            if tn == "tdm":
                self.feat("tdm")
            if args:
                pv, kv = self.ev_arguments(args)
                p.type["options"] = kv
                if kv:
                    self.feat("type-options")
                if pv:
                    self.feat("positional-option")
        for (path, tok) in meta["includes"]:
            self.feat("include")
            self.do_include(path, tok)
        self.in_metadata = False

    def do_include(self, path, tok):
        if self.fs is None:
            raise OOD("include without a file system")
        if self.depth > 8:
            raise OOD("include depth")
        base = os.path.dirname(self.filename) if self.filename is not None else ""
        full = os.path.join(base, path)
        for (fn, _) in self.prog.includes.values():
            if fn == full:
                return
        text = self.fs(full)
        if text is None:
            raise IllFormed("include-missing", path, tok.line, tok.col)
        sub = run(text, self.g, fs=self.fs, filename=full, depth=self.depth + 1, check=False)
        self.prog.includes[sub.name] = (full, sub)
        for k, v in sub.includes.items():
            self.prog.includes[k] = v

    # ---- program block
    def run_items(self, items):
        for it in items:
            if it[0] == "var":
                self.do_var(it)
            elif it[0] == "arrayvar":
                self.do_array(it)
            elif it[0] == "stmt":
                self.do_stmt(it)
            elif it[0] == "for":
                self.do_for(it)

    def check_name(self, name, ntok, invalid):
        if invalid:
            raise IllFormed("reserved-name", name, ntok.line, ntok.col, invalid)

    def do_var(self, it):
        _, vartype, name, ntok, invalid, val, first = it
        self.check_name(name, ntok, invalid)
        self.feat("scalar:" + vartype)
        v = self.ev_val(val)
        if vartype == "array":
            raise OOD("scalar declared with type 'array'")
        if name in self.prog.pnames:
            raise OOD("tdm p-array name redeclared as a scalar")
        if isinstance(v, Sym):
            if v.regs():
                raise OOD("register in a variable initialiser")
            self.feat("scalar-param")
            self.env[name] = v
            self.declared.add(name)
            return
        if isinstance(v, Arr) and v.kind == "c" and KIND_OF_TYPE.get(vartype) in ("i", "f"):
            # a whole complex array where an int or a float is declared: a complex value assigned to a real variable
            raise IllFormed("complex-to-real", name, first.line, first.col)
        if not isinstance(v, V):
            raise OOD("non-scalar initialiser")
        if v.big:
            raise OOD("int64 range")
        want = KIND_OF_TYPE[vartype]
        if want in "if" and v.k == "c":
            raise IllFormed("complex-to-real", name, first.line, first.col)
        if want == "i" and v.k == "f":
            self.env[name] = float_to_int(v, scalar=True)
            self.feat("int<-exact-float" if not self.env[name].big else "int<-huge-float")
            self.declared.add(name)
            return
        ok = {
            "i": v.k == "i",
            "f": v.k in "if",
            "c": v.k in "ifc",
            "b": v.k == "b",
            "s": v.k == "s",
        }[want]
        if not ok:
            raise OOD("initialiser not type-compatible (%s <- %s)" % (want, v.k))
        self.env[name] = convert(v, want)
        self.declared.add(name)

    def do_array(self, it):
        _, vartype, name, ntok, invalid, shape, rows, bare_param, first = it
        self.check_name(name, ntok, invalid)
        self.feat("array:" + vartype)
        if vartype not in ("int", "float", "complex"):
            raise OOD("array of type %s" % vartype)
        want = KIND_OF_TYPE[vartype]
        if shape is not None:
            self.feat("array-shape")
            if len(shape) != 2:
                # arrays are two-dimensional: a declared shape with one or three numbers contradicts every array
                raise IllFormed("array-shape-mismatch", name, first.line, first.col, "declared shape %r" % (shape,))
        if bare_param is not None:
            raise OOD("whole-array parameter without indentation")
        if not rows:
            raise OOD("array without rows")
        # whole-array parameter: body is one row holding one bare parameter
        if len(rows) == 1 and len(rows[0]) == 1 and rows[0][0][0] == "param":
            pname = rows[0][0][1]
            if shape is None:
                raise IllFormed("array-param-no-shape", name, first.line, first.col)
            if shape[0] < 1 or shape[1] < 1:
                raise OOD("empty declared shape")
            self.feat("array-whole-param")
            out = []
            for i in range(shape[0]):
                out.append([])
                for j in range(shape[1]):
                    pn = "%s_%d_%d" % (pname, i, j)
                    self.prog.params.append(pn)
                    out[-1].append(Sym(("param", pn)))
            arr = Arr(want, out)
        else:
            out = []
            for r in rows:
                orow = []
                for e in r:
                    if e[0] == "param":
                        self.feat("array-element-param")
                        orow.append(self.ev(e))
                        continue
                    v = self.ev(e)
                    if isinstance(v, Sym):
                        raise OOD("symbolic expression (not a bare parameter) as array element")
                    if not (isinstance(v, V) and v.k in "ifc"):
                        raise OOD("non-numeric array element")
                    if v.big:
                        raise OOD("int64 range")
                    if want in "if" and v.k == "c":
                        raise IllFormed("complex-to-real", name, first.line, first.col)
                    if want == "i" and v.k == "f":
                        orow.append(float_to_int(v, scalar=False))
                        self.feat("int<-exact-float")
                        continue
                    if want == "i" and v.k != "i":
                        raise OOD("array element not type-compatible (i <- %s)" % v.k)
                    orow.append(convert(v, want))
                out.append(orow)
            if len({len(r) for r in out}) > 1:
                raise IllFormed("ragged-array", name, first.line, first.col)
            arr = Arr(want, out)
            if shape is not None and tuple(shape) != arr.shape:
                raise IllFormed("array-shape-mismatch", name, first.line, first.col)
        if self.prog.type["name"] == "tdm" and PTYPE.match(name):
            self.feat("tdm-parray")
            if name not in self.prog.pnames:
                self.prog.pnames.append(name)
        self.env[name] = arr
        self.declared.add(name)

    def do_stmt(self, it):
        _, optok, args, modes = it
        self.prog.statements_executed += 1
        mvals = []
        self.feat("op:measure" if optok.type == "MEASURE" else "op:gate")
        for m in modes:
            v = self.ev(m)
            if isinstance(v, V) and v.big:
                raise OOD("int64 range")
            if isinstance(v, V) and v.k == "i":
                mvals.append(v.v)
            elif isinstance(v, V) and v.k == "b":
                raise OOD("boolean mode")
            else:
                raise IllFormed("mode-type", optok.text, optok.line, optok.col, repr(v))
        if len(mvals) > 1:
            self.feat("multi-mode")
        if args is None:
            self.feat("no-arglist")
            op = RefOp(optok.text, mvals, None, None, optok.line)
        else:
            pv, kv = self.ev_arguments(args)
            if not pv and not kv:
                self.feat("empty-arglist")
            for v in list(pv) + [x for _, x in kv]:
                self.classify_arg(v)
            op = RefOp(optok.text, mvals, pv, kv, optok.line)
        if op.name in self.prog.includes:
            self.feat("include-call")
            self.inline(op, optok)
        else:
            self.prog.ops.append(op)

    def classify_arg(self, v):
        if isinstance(v, list):
            for x in v:
                if isinstance(x, Sym):
                    if x.regs():
                        raise OOD("register inside a list argument")
                    self.feat("param-in-list")
            return
        if isinstance(v, Sym):
            r, p = v.regs(), v.params()
            if r and p:
                raise OOD("register mixed with template parameter")
            if r:
                self.feat("regref-arg")
                if len(r) > 1:
                    self.feat("regref-multi")
            else:
                self.feat("param-arg")
                if len(p) > 1:
                    self.feat("param-multi")
        elif isinstance(v, Arr):
            self.feat("array-arg")
            if v.has_sym():
                self.feat("array-arg-with-param")
        elif isinstance(v, PName):
            self.feat("pname-arg")

    def inline(self, op, optok):
        full, sub = self.prog.includes[op.name]
        smodes = sorted(sub.modes)
        if len(op.modes) != len(smodes):
            raise IllFormed("include-arity", op.name, optok.line, optok.col)
        sparams = set(sub.param_names())
        if op.args is not None:
            if not sparams:
                raise IllFormed("include-args-for-non-template", op.name, optok.line, optok.col)
            if op.args:
                raise OOD("positional arguments in an include call")
            keys = {k for k, _ in op.kwargs}
            if keys != sparams:
                raise IllFormed("include-keywords", op.name, optok.line, optok.col)
            asg = {}
            for k, v in op.kwargs:
                if isinstance(v, Sym) and not v.regs():
                    # the caller's own template parameters are passed on: all parameters are bound simultaneously
                    self.feat("include-symbolic-argument")
                    asg[("param", k)] = v
                    continue
                if not (isinstance(v, V) and v.k in "if"):
                    raise OOD("non-real value bound to an include parameter")
                if v.k == "i" and not isinstance(v.v, int):
                    raise OOD("non-int integer")
                asg[("param", k)] = v
        else:
            if sparams:
                raise IllFormed("include-missing-arguments", op.name, optok.line, optok.col)
            asg = {}
        if len(set(op.modes)) != len(op.modes):
            raise OOD("repeated mode in an include call")
        mm = dict(zip(smodes, op.modes))
        if asg:
            # binding the parameters evaluates every symbolic variable of the sub-program as well
            # (a division by zero there puts the call outside the domain)
            for v in sub.vars.values():
                if isinstance(v, (Sym, Arr)):
                    subst(v, asg)
        for so in sub.ops:
            self.prog.ops.append(
                RefOp(
                    so.name,
                    [mm[m] for m in so.modes],
                    None if so.args is None else [subst(a, asg) for a in so.args],
                    None if so.kwargs is None else [(k, subst(a, asg)) for k, a in so.kwargs],
                    optok.line,
                )
            )

    def do_for(self, it):
        _, vartype, var, header, body, ftok = it
        self.feat("loop")
        name = var.text
        if name in self.declared or name in self.env:
            raise OOD("loop variable declared elsewhere")
        if header[0] == "range":
            self.feat("loop-range")
            _, a, b, c = header
            if c is not None:
                self.feat("loop-range-step")
                if c == 0:
                    raise OOD("zero step")
            if vartype not in ("int", "float"):
                raise OOD("range loop of type %s" % vartype)
            raw = [V("i", x) for x in range(a, b, c if c is not None else 1)]
        else:
            self.feat("loop-list")
            raw = [self.ev_val(x) for x in header[1]]
        want = KIND_OF_TYPE.get(vartype)
        if want is None or want == "c":
            raise OOD("loop of type %s" % vartype)
        vals = []
        for v in raw:
            if not isinstance(v, V):
                raise OOD("non-scalar loop value")
            if want == "i":
                if v.k == "i":
                    vals.append(v)
                elif v.k == "s" or (v.k == "f" and v.v != int(v.v)) or v.k == "c":
                    raise IllFormed("loop-type", name, var.line, var.col, repr(v))
                elif v.k == "b" and self.convert_debatable:
                    self.feat("loop-debatable")
                    vals.append(V("i", int(v.v)))
                else:
                    raise OOD("loop value of debatable type (int <- %s)" % v.k)
            elif want == "f":
                if v.k == "i" and float(v.v) != v.v:
                    raise OOD("integer loop value not representable as a float")
                if v.k in "if":
                    vals.append(convert(v, "f"))
                elif v.k in "sc":
                    raise IllFormed("loop-type", name, var.line, var.col, repr(v))
                elif v.k == "b" and self.convert_debatable:
                    self.feat("loop-debatable")
                    vals.append(V("f", float(v.v)))
                else:
                    raise OOD("loop value of debatable type (float <- %s)" % v.k)
            elif want == "b":
                if v.k == "b":
                    vals.append(v)
                elif v.k == "s":
                    raise OOD("loop value of debatable type (bool <- str)")
                elif v.k == "i" and v.v in (0, 1) and self.convert_debatable:
                    self.feat("loop-debatable")
                    vals.append(V("b", bool(v.v)))
                else:
                    raise OOD("loop value of debatable type (bool <- %s)" % v.k)
            elif want == "s":
                if v.k == "s":
                    vals.append(v)
                elif v.k in "ifc":
                    raise IllFormed("loop-type", name, var.line, var.col, repr(v))
                else:
                    raise OOD("loop value of debatable type (str <- %s)" % v.k)
        if not vals:
            self.feat("loop-empty")
            if _mentions_param(body):
                self.feat("param-in-unexecuted-loop")
        self.feat("loop:" + vartype)
        self.prog.loops.append((name, vartype, [v.v for v in vals], len(vals)))
        for v in vals:
            self.env[name] = v
            for st in body:
                self.do_stmt(st)
        self.env.pop(name, None)


def _mentions_param(node):
    if isinstance(node, tuple):
        if node and node[0] == "param":
            return True
        return any(_mentions_param(x) for x in node)
    if isinstance(node, list):
        return any(_mentions_param(x) for x in node)
    return False


def _first_token(e):
    for x in e:
        if hasattr(x, "line"):
            return x
    return None


def float_to_int(v, scalar):
    """A float where the declared type is int (Appendix A, rule 13).  In the domain only where the conversion is exact and
    does not depend on rounding: (a) a float known without error (a literal such as 3.0 or 2e3, or a variable holding
    one) that is integral and inside int64 becomes that integer; (b) for an ``int`` scalar, a float of magnitude >=
    2**53 - integral whatever its last bits are - becomes the integer of the float the implementation computed, which the
    reference knows within its error bound.  Everything else (3.7; 6/2, whose reference value carries a rounding bound)
    stays outside the quantifier "type-compatible initialiser"."""
    import math as _m

    x = v.v
    if not _m.isfinite(x):
        raise OOD("non-finite")
    if v.e == 0.0 and x == int(x) and abs(x) < 2 ** 63:
        return V("i", int(x))
    if scalar and abs(x) >= 2 ** 53 and v.e <= 1e-6 * abs(x):
        return refnum.ApproxInt("i", int(x), v.e)
    raise OOD("initialiser not type-compatible (i <- f)")


def convert(v, want):
    if want == v.k:
        return v
    if want == "f":
        try:
            return V("f", float(v.v), v.e + (refnum.rnd(v.v) if abs(v.v) > 2 ** 53 else 0.0))
        except OverflowError:
            raise OOD("overflow")
    if want == "c":
        try:
            return V("c", complex(v.v), v.e + (refnum.rnd(v.v) if v.k == "i" and abs(v.v) > 2 ** 53 else 0.0))
        except OverflowError:
            raise OOD("overflow")
    raise OOD("conversion %s <- %s" % (want, v.k))


def _subst_tree(t, asg):
    k = t[0]
    if k == "param":
        b = asg[("param", t[1])]
        return b.tree if isinstance(b, Sym) else ("num", b)
    if k in ("num", "reg"):
        return t
    if k == "neg":
        return ("neg", _subst_tree(t[1], asg))
    if k == "func":
        return ("func", t[1], _subst_tree(t[2], asg))
    return ("bin", t[1], _subst_tree(t[2], asg), _subst_tree(t[3], asg))


def subst(value, asg):
    """Bind template parameters inside a reference value (include calls, C04)."""
    if isinstance(value, Sym):
        rest = value.params() - {k[1] for k in asg}
        if rest or value.regs():
            raise OOD("partial binding")
        if any(isinstance(asg[("param", p)], Sym) for p in value.params()):
            # some of the bound values are the caller's parameters: simultaneous substitution into the tree
            return Sym(_subst_tree(value.tree, asg))
        r = value.evaluate(asg)
        if value.tree[0] == "param":
            return r     # a bare parameter receives the bound value itself: kind and sign of zero included
        return LooseV(r.k, r.v, r.e)
    if isinstance(value, list):
        return [subst(x, asg) for x in value]
    if isinstance(value, Arr):
        return Arr(value.kind, [[subst(x, asg) if isinstance(x, Sym) else x for x in r] for r in value.rows])
    return value


def ref_points(leaves, seed, k):
    pts = []
    for i in range(k):
        rr = random.Random("%s/%d" % (seed, i))
        pts.append({lf: V("f", rr.choice([-1, 1]) * rr.uniform(0.3, 3.0)) for lf in sorted(leaves)})
    return pts


def ref_depends_on_all(symv, seed="dep"):
    """True when the reference value numerically depends on each of its leaves
    (no parameter/register cancels identically).  None when undecidable."""
    leaves = {("param", n) for n in symv.params()} | {("reg", n) for n in symv.regs()}
    for lf in leaves:
        dep = False
        tried = 0
        for i, pt in enumerate(ref_points(leaves, "%s/%s" % (seed, lf), 6)):
            try:
                a = symv.evaluate(pt)
                pt2 = dict(pt)
                pt2[lf] = V("f", pt[lf].v * 1.37 + 0.21)
                b = symv.evaluate(pt2)
            except OOD:
                continue
            tried += 1
            if abs(complex(a.v) - complex(b.v)) > 8 * (a.e + b.e) + 1e-9 * abs(complex(a.v)):
                dep = True
                break
        if tried == 0:
            return None
        if not dep:
            return False
    return True


def check_symbols(prog, allow_func=False):
    """Domain rules for symbolic values of a finished reference program: a
    parameter or register that cancels identically, or an expression that cannot
    be evaluated anywhere, puts the script outside the properties' quantifiers."""
    vals = []
    for o in prog.ops:
        for a in (o.args or []):
            vals.append(a)
        for _, a in (o.kwargs or []):
            vals.append(a)
    vals.extend(prog.vars.values())
    st = list(vals)
    while st:
        v = st.pop()
        if isinstance(v, list):
            st.extend(v)
        elif isinstance(v, Arr):
            st.extend(x for x in v.flat() if isinstance(x, Sym))
        elif isinstance(v, Sym):
            if not allow_func and _has_func(v.tree):
                raise OOD("function of a symbolic value")
            d = ref_depends_on_all(v)
            if d is None:
                raise OOD("symbolic value cannot be evaluated at generic points")
            if d is False:
                raise OOD("parameter or register cancels identically")


def _has_func(t):
    if t[0] == "func":
        return True
    if t[0] == "neg":
        return _has_func(t[1])
    if t[0] == "bin":
        return _has_func(t[2]) or _has_func(t[3])
    return False


def run(text, grammar, fs=None, filename=None, depth=0, tokens=None, check=True, allow_func=False, convert_debatable=False, meta_params=False):
    """Interpret a script.  See the module docstring for the outcomes."""
    toks = tokens if tokens is not None else grammar.tokenize(text)
    meta, items = parse_tokens(toks)
    it = Interp(grammar, fs=fs, filename=filename, depth=depth)
    it.convert_debatable = convert_debatable
    it.meta_params = meta_params
    it.run_meta(meta)
    it.run_items(items)
    p = it.prog
    p.vars = dict(it.env)
    if check and depth == 0:
        check_symbols(p, allow_func=allow_func)
    return p
