"""Reference front end derived from ``src/blackbird.g4`` at run time.

* a parser for the subset of ANTLR4 meta-syntax the grammar file uses;
* a reference lexer: every non-fragment lexer rule becomes a Thompson NFA and
  the input is tokenised by simulating all of them together - longest match,
  earliest rule wins ties, ``-> skip`` rules dropped (the textbook semantics of
  an ANTLR lexer without modes, predicates or actions);
* a reference recogniser: parser rules are converted EBNF -> BNF and run
  through an Earley recogniser over token types.  It reports accept/reject
  and, on reject, the index of the first token at which no viable prefix
  remains.

Nothing here imports ``blackbird`` or the ANTLR runtime.  A construct of the
meta-syntax that is not understood raises :class:`G4Unsupported`; dependent
checks turn that into *inconclusive*, never into "held".
"""
import itertools
import re
from collections import namedtuple


class G4Unsupported(Exception):
    """The grammar file uses a construct this reference does not implement."""


Token = namedtuple("Token", "type text pos line col")

_G4TOK = re.compile(
    r"""
   (?P<ws>\s+)
 | (?P<lcomment>//[^\n]*)
 | (?P<bcomment>/\*.*?\*/)
 | (?P<lit>'(?:\\.|[^'\\])*')
 | (?P<cset>\[(?:\\.|[^\]\\])*\])
 | (?P<arrow>->)
 | (?P<pluseq>\+=)
 | (?P<opt><[^>]*>)
 | (?P<id>[A-Za-z_][A-Za-z_0-9]*)
 | (?P<sym>[:;|()*+?~.=\#])
""",
    re.X | re.S,
)

_ESC = {"n": "\n", "r": "\r", "t": "\t", "b": "\b", "f": "\f"}


def _g4_tokens(text):
    pos = 0
    out = []
    while pos < len(text):
        m = _G4TOK.match(text, pos)
        if not m:
            raise G4Unsupported("cannot tokenise grammar file at offset %d: %r" % (pos, text[pos : pos + 20]))
        pos = m.end()
        k = m.lastgroup
        if k in ("ws", "lcomment", "bcomment"):
            continue
        out.append((k, m.group()))
    return out


def _unescape(s):
    out = []
    i = 0
    while i < len(s):
        c = s[i]
        if c == "\\":
            i += 1
            d = s[i]
            if d == "u":
                raise G4Unsupported("unicode escape in literal")
            out.append(_ESC.get(d, d))
        else:
            out.append(c)
        i += 1
    return "".join(out)


def _parse_cset(body):
    items = []
    i = 0
    while i < len(body):
        c = body[i]
        esc = False
        if c == "\\":
            i += 1
            d = body[i]
            if d in "upP":
                raise G4Unsupported("unicode escape/property in character set")
            c = _ESC.get(d, d)
            esc = True
        items.append((c, esc))
        i += 1
    res = set()
    j = 0
    while j < len(items):
        if j + 2 < len(items) and items[j + 1] == ("-", False):
            for o in range(ord(items[j][0]), ord(items[j + 2][0]) + 1):
                res.add(chr(o))
            j += 3
        else:
            res.add(items[j][0])
            j += 1
    return frozenset(res)


class _P:
    def __init__(self, toks):
        self.t = toks
        self.i = 0

    def peek(self):
        return self.t[self.i] if self.i < len(self.t) else (None, None)

    def next(self):
        x = self.t[self.i]
        self.i += 1
        return x

    def accept(self, v):
        if self.peek()[1] == v:
            self.i += 1
            return True
        return False

    def expect(self, v):
        if not self.accept(v):
            raise G4Unsupported("expected %r got %r" % (v, self.peek()))


def parse_g4(text):
    """Return (grammar name, [(rule name, is_fragment, body, command)])."""
    p = _P(_g4_tokens(text))
    k, v = p.next()
    if v in ("lexer", "parser"):
        raise G4Unsupported("split grammars")
    if v != "grammar":
        raise G4Unsupported("grammar header")
    gname = p.next()[1]
    p.expect(";")
    rules = []
    while p.peek()[0] is not None:
        frag = False
        if p.peek()[1] in ("options", "tokens", "channels", "import", "mode", "@"):
            raise G4Unsupported("grammar section %r" % p.peek()[1])
        if p.peek()[1] == "fragment":
            p.next()
            frag = True
        k, name = p.next()
        if k != "id":
            raise G4Unsupported("rule name expected, got %r" % name)
        p.expect(":")
        body, cmds = _parse_alts(p, toplevel=True)
        p.expect(";")
        rules.append((name, frag, body, cmds))
    return gname, rules


def _parse_alts(p, toplevel=False):
    alts = []
    cmds = None
    while True:
        seq, c, label, assoc = _parse_seq(p)
        if c:
            cmds = c
        alts.append(("seq", seq, label, assoc))
        if p.accept("|"):
            continue
        break
    node = ("alt", alts)
    return (node, cmds) if toplevel else node


def _parse_seq(p):
    items = []
    cmds = None
    label = None
    assoc = None
    while True:
        k, v = p.peek()
        if v in (";", "|", ")") or k is None:
            break
        if k == "arrow":
            p.next()
            cmds = p.next()[1]
            if cmds != "skip":
                raise G4Unsupported("lexer command %r" % cmds)
            continue
        if v == "#":
            p.next()
            label = p.next()[1]
            continue
        if k == "opt":
            p.next()
            if "assoc" in v:
                assoc = v
            else:
                raise G4Unsupported("element option %r" % v)
            continue
        items.append(_parse_suffixed(p))
    return items, cmds, label, assoc


def _parse_suffixed(p):
    a = _parse_atom(p)
    while True:
        if p.accept("*"):
            a = ("star", a)
        elif p.accept("+"):
            a = ("plus", a)
        elif p.accept("?"):
            if a[0] in ("star", "plus", "opt"):
                raise G4Unsupported("non-greedy operator")
            a = ("opt", a)
        else:
            break
    return a


def _parse_atom(p):
    k, v = p.next()
    if v == "(":
        a = _parse_alts(p)
        p.expect(")")
        return a
    if v == "~":
        a = _parse_atom(p)
        return ("not", a)
    if v == ".":
        return ("any",)
    if k == "lit":
        return ("lit", _unescape(v[1:-1]))
    if k == "cset":
        return ("set", _parse_cset(v[1:-1]))
    if k == "id":
        if p.peek()[1] == "=" or p.peek()[0] == "pluseq":
            p.next()
            return _parse_atom(p)
        return ("ref", v)
    raise G4Unsupported("unexpected %r in rule body" % (v,))


class Grammar:
    """Reference lexer and recogniser for one grammar text."""

    def __init__(self, text):
        self.text = text
        self.name, self.rules = parse_g4(text)
        self.lexer_rules = [r for r in self.rules if r[0][0].isupper()]
        self.parser_rules = [r for r in self.rules if not r[0][0].isupper()]
        self._build_lexer()
        self._build_cfg()

    # ------------------------------------------------------------------ lexer
    def _build_lexer(self):
        lex = self.lexer_rules
        byname = {n: b for (n, f, b, c) in lex}
        eps = []
        trans = []

        def new():
            eps.append([])
            trans.append([])
            return len(eps) - 1

        start = new()
        accept = {}
        self.token_names = []
        self.skipped = set()
        self._rule_start = {}
        # implicit tokens for literals used in parser rules are not supported
        stack = []

        def build(node, s):
            t = node[0]
            if t == "alt":
                e = new()
                for a in node[1]:
                    s1 = new()
                    eps[s].append(s1)
                    e1 = build(a, s1)
                    eps[e1].append(e)
                return e
            if t == "seq":
                cur = s
                for it in node[1]:
                    cur = build(it, cur)
                return cur
            if t == "star":
                e = new()
                s1 = new()
                eps[s].append(s1)
                eps[s].append(e)
                e1 = build(node[1], s1)
                eps[e1].append(s1)
                eps[e1].append(e)
                return e
            if t == "plus":
                s1 = new()
                eps[s].append(s1)
                e1 = build(node[1], s1)
                e = new()
                eps[e1].append(s1)
                eps[e1].append(e)
                return e
            if t == "opt":
                e = new()
                eps[s].append(e)
                e1 = build(node[1], s)
                eps[e1].append(e)
                return e
            if t == "lit":
                cur = s
                for ch in node[1]:
                    n = new()
                    trans[cur].append((frozenset([ch]), False, n))
                    cur = n
                return cur
            if t == "set":
                n = new()
                trans[s].append((node[1], False, n))
                return n
            if t == "not":
                inner = node[1]
                if inner[0] == "set":
                    cs = inner[1]
                elif inner[0] == "lit" and len(inner[1]) == 1:
                    cs = frozenset(inner[1])
                else:
                    raise G4Unsupported("~ applied to %s" % inner[0])
                n = new()
                trans[s].append((cs, True, n))
                return n
            if t == "any":
                n = new()
                trans[s].append((frozenset(), True, n))
                return n
            if t == "ref":
                if node[1] not in byname:
                    raise G4Unsupported("lexer rule refers to %r" % node[1])
                if node[1] in stack:
                    raise G4Unsupported("recursive lexer rule %r" % node[1])
                stack.append(node[1])
                e = build(byname[node[1]], s)
                stack.pop()
                return e
            raise G4Unsupported("lexer node %r" % (t,))

        for (n, f, b, c) in lex:
            if f:
                continue
            idx = len(self.token_names)
            self.token_names.append(n)
            if c == "skip":
                self.skipped.add(idx)
            s1 = new()
            eps[start].append(s1)
            stack[:] = [n]
            e = build(b, s1)
            accept[e] = idx
            self._rule_start[idx] = s1
        self._eps, self._trans, self._accept = eps, trans, accept
        self._c0 = frozenset(self._closure({start}))
        self._step_cache = {}
        self._acc_cache = {}
        self.nfa_states = len(eps)

    def _closure(self, states):
        st = list(states)
        seen = set(states)
        eps = self._eps
        while st:
            s = st.pop()
            for t in eps[s]:
                if t not in seen:
                    seen.add(t)
                    st.append(t)
        return seen

    def _step(self, S, ch):
        key = (S, ch)
        r = self._step_cache.get(key)
        if r is None:
            nxt = set()
            trans = self._trans
            for s in S:
                for (cs, neg, t) in trans[s]:
                    if (ch in cs) != neg:
                        nxt.add(t)
            r = frozenset(self._closure(nxt)) if nxt else frozenset()
            self._step_cache[key] = r
        return r

    def _acc_of(self, S):
        r = self._acc_cache.get(S)
        if r is None:
            xs = [self._accept[s] for s in S if s in self._accept]
            r = min(xs) if xs else -1
            self._acc_cache[S] = r
        return r

    def tokenize(self, text, keep_skipped=False):
        """Return the list of :class:`Token` (without EOF).  Lines are 1-based,
        columns 0-based, both counted the way ANTLR does (a line ends at '\\n')."""
        out = []
        pos = 0
        n = len(text)
        line = 1
        col = 0
        names = self.token_names
        while pos < n:
            S = self._c0
            i = pos
            best = None
            while i < n:
                S = self._step(S, text[i])
                if not S:
                    break
                i += 1
                a = self._acc_of(S)
                if a >= 0:
                    best = (i, a)
            if best is None:
                raise ValueError("reference lexer: no rule matches at offset %d" % pos)
            end, a = best
            if keep_skipped or a not in self.skipped:
                out.append(Token(names[a], text[pos:end], pos, line, col))
            seg = text[pos:end]
            nl = seg.count("\n")
            if nl:
                line += nl
                col = len(seg) - seg.rfind("\n") - 1
            else:
                col += len(seg)
            pos = end
        return out

    def alphabet(self):
        """Characters mentioned by the lexer rules (literals and sets), plus a few foreign ones."""
        chars = set()
        for s in range(len(self._trans)):
            for (cs, neg, t) in self._trans[s]:
                chars |= set(cs)
        return sorted(chars | set("\u00e9\u03c0~`$@;?"))

    def rule_strings(self, name, maxlen=6, limit=400, alphabet=None):
        """Strings accepted by lexer rule `name` alone (enumerated from its NFA,
        shortest first, one representative character per distinct transition set)."""
        idx = self.token_names.index(name)
        acc_state = [s for s, a in self._accept.items() if a == idx][0]
        start = frozenset(self._closure({self._rule_start[idx]}))
        alpha = alphabet or self.alphabet()
        out = []
        frontier = [("", start)]
        seen = {start}
        for _ in range(maxlen):
            nxt = []
            for (prefix, S) in frontier:
                groups = {}
                for ch in alpha:
                    T = self._step(S, ch)
                    if T:
                        groups.setdefault(T, ch)
                for T, ch in groups.items():
                    w = prefix + ch
                    if acc_state in T:
                        out.append(w)
                        if len(out) >= limit:
                            return out
                    nxt.append((w, T))
            frontier = nxt[: 4 * limit]
            if not frontier:
                break
        return out

    def sample_text(self, name):
        """A short string that the full lexer turns into exactly one token of type `name` (or None)."""
        for w in self.rule_strings(name, maxlen=8, limit=60):
            try:
                t = self.tokenize(w, keep_skipped=True)
            except ValueError:
                continue
            if len(t) == 1 and t[0].type == name:
                return w
        for ch in self.alphabet():
            try:
                t = self.tokenize(ch, keep_skipped=True)
            except ValueError:
                continue
            if len(t) == 1 and t[0].type == name:
                return ch
        return None

    def eof_position(self, text):
        """(line, col) ANTLR reports for the EOF token."""
        nl = text.count("\n")
        return 1 + nl, len(text) - text.rfind("\n") - 1

    # ----------------------------------------------------------------- parser
    def _build_cfg(self):
        prods = {}
        counter = itertools.count()
        tokset = set(self.token_names)

        def fresh(base):
            return "%s$%d" % (base, next(counter))

        def conv(node, owner):
            t = node[0]
            if t == "ref":
                return node[1]
            if t == "lit":
                raise G4Unsupported("literal in parser rule %s" % owner)
            if t == "alt":
                if len(node[1]) == 1 and len(node[1][0][1]) == 1:
                    return conv(node[1][0][1][0], owner)
                nt = fresh(owner)
                prods[nt] = [tuple(conv(x, owner) for x in a[1]) for a in node[1]]
                return nt
            if t == "seq":
                nt = fresh(owner)
                prods[nt] = [tuple(conv(x, owner) for x in node[1])]
                return nt
            if t == "star":
                x = conv(node[1], owner)
                nt = fresh(owner)
                prods[nt] = [(), (nt, x)]
                return nt
            if t == "plus":
                x = conv(node[1], owner)
                nt = fresh(owner)
                prods[nt] = [(x,), (nt, x)]
                return nt
            if t == "opt":
                x = conv(node[1], owner)
                nt = fresh(owner)
                prods[nt] = [(), (x,)]
                return nt
            raise G4Unsupported("parser node %r in rule %s" % (t, owner))

        for (n, f, b, c) in self.parser_rules:
            prods[n] = [tuple(conv(x, n) for x in a[1]) for a in b[1]]
        for nt, rs in prods.items():
            for r in rs:
                for s in r:
                    if s not in prods and s not in tokset and s != "EOF":
                        raise G4Unsupported("undefined symbol %r in rule %s" % (s, nt))
        self.prods = prods
        self.start = self.parser_rules[0][0]
        nullable = set()
        changed = True
        while changed:
            changed = False
            for nt, rs in prods.items():
                if nt in nullable:
                    continue
                for r in rs:
                    if all(s in nullable for s in r):
                        nullable.add(nt)
                        changed = True
                        break
        self.nullable = nullable
        # integer-coded productions for speed
        self._nts = sorted(prods)
        self._ntid = {n: i for i, n in enumerate(self._nts)}

    def recognize(self, types, start=None):
        """Earley recognition of a sequence of token type names (EOF appended by
        the caller when the start rule demands it).  Returns (accepted,
        first_bad) where first_bad is the index of the first token at which no
        viable prefix remains (len(types) when the input is a proper prefix of a
        sentence, None when accepted)."""
        prods = self.prods
        start = start or self.start
        nullable = self.nullable
        n = len(types)
        chart = [dict() for _ in range(n + 1)]
        agenda = []

        def add(i, item):
            c = chart[i]
            if item not in c:
                c[item] = True
                agenda.append(item)

        for ri in range(len(prods[start])):
            add(0, (start, ri, 0, 0))
        for i in range(n + 1):
            if i > 0:
                agenda = list(chart[i].keys())
                if not agenda:
                    return False, i - 1
            tok = types[i] if i < n else None
            nxt = chart[i + 1] if i < n else None
            # index of items waiting for a nonterminal at this set, built lazily
            while agenda:
                (nt, ri, dot, org) = agenda.pop()
                rhs = prods[nt][ri]
                if dot < len(rhs):
                    sym = rhs[dot]
                    if sym in prods:
                        for rj in range(len(prods[sym])):
                            add(i, (sym, rj, 0, i))
                        if sym in nullable:
                            add(i, (nt, ri, dot + 1, org))
                    elif sym == tok:
                        nxt[(nt, ri, dot + 1, org)] = True
                else:
                    for (nt2, ri2, dot2, org2) in list(chart[org].keys()):
                        rhs2 = prods[nt2][ri2]
                        if dot2 < len(rhs2) and rhs2[dot2] == nt:
                            add(i, (nt2, ri2, dot2 + 1, org2))
        ok = any(
            nt == start and dot == len(prods[nt][ri]) and org == 0 for (nt, ri, dot, org) in chart[n]
        )
        return ok, (None if ok else n)

    def is_sentence(self, text):
        """(accepted, first_bad_token_index, tokens) for a character string."""
        toks = self.tokenize(text)
        ok, bad = self.recognize([t.type for t in toks] + ["EOF"])
        return ok, bad, toks


_cache = {}


def load(path):
    """Grammar object for the grammar file at `path` (cached per process by content)."""
    with open(path, encoding="utf-8") as f:
        text = f.read()
    g = _cache.get(text)
    if g is None:
        g = _cache[text] = Grammar(text)
    return g
