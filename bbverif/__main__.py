import argparse
import os
import sys


def main(argv=None):
    ap = argparse.ArgumentParser(prog="bbverif")
    sub = ap.add_subparsers(dest="cmd", required=True)
    c = sub.add_parser("check")
    c.add_argument("pid")
    c.add_argument("--tier", default=os.environ.get("VERIF_TIER", "quick"), choices=["quick", "thorough"])
    c.add_argument("--seed", type=int, default=None)
    c.add_argument("--workers", type=int, default=None)
    w = sub.add_parser("worker")
    w.add_argument("pid")
    w.add_argument("--tier", required=True)
    w.add_argument("--seed", type=int, required=True)
    w.add_argument("--index", type=int, required=True)
    w.add_argument("--of", type=int, required=True)
    w.add_argument("--out", required=True)
    r = sub.add_parser("replay")
    r.add_argument("path")
    sub.add_parser("selftest")
    a = ap.parse_args(argv)
    from . import runner

    if a.cmd == "check":
        return runner.run_check(a.pid, a.tier, a.seed, a.workers)
    if a.cmd == "worker":
        runner.worker_main(a.pid, a.tier, a.seed, a.index, a.of, a.out)
        return 0
    if a.cmd == "replay":
        return runner.replay(a.path)
    if a.cmd == "selftest":
        from . import selftest

        return selftest.main()


if __name__ == "__main__":
    sys.exit(main())
