"""Canonical content of programs and the comparisons the properties ask for
(DESIGN §1.5).

* :func:`program_content` - everything the properties talk about, as plain data
  holding the live values;
* :func:`diff_real` - real program vs real program (round trip, layout, unrolling,
  substitution, hash seeds ...): exact for numbers/bools/strings/lists/arrays,
  numerical for symbolic and register arguments;
* :func:`diff_ref` - reference program (:mod:`refsem`) vs real program;
* :func:`jsonable` / :func:`digest` - renderings for evidence, replays, digests;
* :func:`alias_ids` - ids of the mutable containers reachable from an object.
"""
import hashlib
import json
import cmath
import math
import random

import numpy as np
import sympy as sym

from . import refnum, refsem
from .refnum import OOD, V
from .refsem import Arr, LooseV, PName, Sym


# symbolic comparisons for which no generic point could be evaluated (counted, never a verdict)
UNCHECKABLE = [0]  # comparisons with no evaluable point
COMPLEX_PROBES = [0]


def _rrt():
    from blackbird.listener import RegRefTransform

    return RegRefTransform


def kind(v):
    """Value kind of a delivered (real) value."""
    if isinstance(v, (bool, np.bool_)):
        return "bool"
    if isinstance(v, (int, np.integer)):
        return "int"
    if isinstance(v, (float, np.floating)):
        return "float"
    if isinstance(v, (complex, np.complexfloating)):
        return "complex"
    if isinstance(v, str):
        return "str"
    if isinstance(v, (list, tuple)):
        return "list"
    if isinstance(v, np.ndarray):
        return "array"
    if isinstance(v, sym.Expr):
        return "sym"
    if isinstance(v, _rrt()):
        return "regref"
    if isinstance(v, dict):
        return "dict"
    if v is None:
        return "none"
    return "other:" + type(v).__name__


def program_content(p):
    ops = []
    for o in p.operations:
        d = {"op": o.get("op"), "modes": list(o.get("modes", []))}
        if "args" in o or "kwargs" in o:
            d["args"] = list(o.get("args", []))
            d["kwargs"] = list(o.get("kwargs", {}).items())
        else:
            d["args"] = None
            d["kwargs"] = None
        d["extra_keys"] = sorted(k for k in o if k not in ("op", "modes", "args", "kwargs"))
        ops.append(d)
    return {
        "name": p.name,
        "version": p.version,
        "target": {"name": p.target.get("name"), "options": list(p.target.get("options", {}).items())},
        "type": {"name": p.programtype.get("name"), "options": list(p.programtype.get("options", {}).items())},
        "parameters": sorted(p.parameters),
        "is_template": bool(p.is_template()),
        "modes": sorted(p.modes, key=lambda m: (str(type(m)), m)) if _sortable(p.modes) else list(p.modes),
        "len": len(p),
        "ops": ops,
        "variables": dict(p.variables),
    }


def _sortable(ms):
    try:
        sorted(ms)
        return True
    except TypeError:
        return False


# ------------------------------------------------------------------ rendering


def _fhex(x):
    x = float(x)
    return x.hex() if math.isfinite(x) else repr(x)


def reg_probe_values(regs):
    """Fixed, distinct, generic real inputs per register number."""
    out = {}
    for r in regs:
        rr = random.Random("regprobe/%d" % r)
        out[r] = rr.choice([-1, 1]) * rr.uniform(0.4, 2.5)
    return out


def regref_signature(v, ndigits=9):
    """(sorted registers, function values at fixed per-register inputs fed in
    the order the object lists them) - invariant under a re-ordering of the
    register list that stays paired with the function."""
    regs = list(v.regrefs)
    vals = []
    for shift in (0.0, 0.37, -0.81):
        pv = reg_probe_values(regs)
        try:
            r = v.func(*[pv[x] + shift for x in regs])
            z = complex(r)
            vals.append("%.*g%+.*gj" % (ndigits, z.real, ndigits, z.imag))
        except Exception as e:  # pole at the probe point etc.
            if type(e).__name__ == "Timeout":
                raise   # an enclosing watchdog fired: inconclusive for this call, not a value
            vals.append("exc:" + type(e).__name__)
    return sorted(regs), vals


class _Unknown(Exception):
    pass


_CFUNCS = {
    "sin": cmath.sin, "cos": cmath.cos, "tan": cmath.tan, "asin": cmath.asin, "acos": cmath.acos,
    "atan": cmath.atan, "sinh": cmath.sinh, "cosh": cmath.cosh, "tanh": cmath.tanh,
    "asinh": cmath.asinh, "acosh": cmath.acosh, "atanh": cmath.atanh, "exp": cmath.exp,
    "log": cmath.log, "Abs": abs, "re": lambda z: z.real, "im": lambda z: z.imag,
    "conjugate": lambda z: z.conjugate(),
}


def _machine_eval(e, sub):
    """Machine-complex evaluation of a SymPy tree; raises OverflowError /
    ZeroDivisionError / ValueError where a double leaves its range, _Unknown for
    a node it does not know.  Only a range pre-screen: the multi-precision
    evaluation of x**(y**huge) builds integers of gigabytes (seen: a C13 worker
    killed at seed 3), so a point where a double overflows is not evaluated
    exactly at all - deterministically, never by a clock."""
    if e.is_Symbol:
        r = complex(sub[e])
    elif e.is_Number:
        r = complex(float(e))
    elif e is sym.I:
        r = 1j
    elif e.is_NumberSymbol:
        r = complex(float(e))
    elif e.is_Add:
        r = 0j
        for a in e.args:
            r += _machine_eval(a, sub)
    elif e.is_Mul:
        r = 1 + 0j
        for a in e.args:
            r *= _machine_eval(a, sub)
    elif e.is_Pow:
        b = _machine_eval(e.args[0], sub)
        x = _machine_eval(e.args[1], sub)
        if abs(x) > 1e6:
            raise OverflowError("exponent magnitude")
        r = b ** x
    elif e.is_Function and type(e).__name__ in _CFUNCS and len(e.args) == 1:
        r = complex(_CFUNCS[type(e).__name__](_machine_eval(e.args[0], sub)))
    else:
        raise _Unknown(type(e).__name__)
    if not (math.isfinite(r.real) and math.isfinite(r.imag)):
        raise OverflowError("non-finite")
    return r


def out_of_machine_range(expr, sub):
    try:
        _machine_eval(expr, sub)
    except (OverflowError, ZeroDivisionError, ValueError):
        return True
    except (_Unknown, TypeError, RecursionError):
        return False
    return False


def sym_signature(v, ndigits=9):
    names = sorted(str(s) for s in v.free_symbols)
    vals = []
    for shift in (0.0, 0.37, -0.81):
        try:
            sub = {}
            for s in v.free_symbols:
                rr = random.Random("symprobe/%s" % s)
                sub[s] = sym.Float(rr.choice([-1, 1]) * rr.uniform(0.4, 2.5) + shift, 17)
            if out_of_machine_range(v, sub):
                vals.append("exc:range")
                continue
            z = complex(v.xreplace(sub).evalf(20))
            vals.append("%.*g%+.*gj" % (ndigits, z.real, ndigits, z.imag))
        except Exception as e:
            if type(e).__name__ == "Timeout":
                # the wall-clock watchdog of an enclosing common.time_limit fired while the machinery itself was
                # evaluating: that is "inconclusive for this call", never a value of the signature
                raise
            vals.append("exc:" + type(e).__name__)
    return names, vals


def jsonable(v, exact=True):
    """JSON-able rendering of a delivered value (exact float renderings)."""
    k = kind(v)
    if k == "bool":
        return ["bool", bool(v)]
    if k == "int":
        return ["int", int(v)]
    if k == "float":
        return ["float", _fhex(v) if exact else float(v)]
    if k == "complex":
        z = complex(v)
        return ["complex", _fhex(z.real), _fhex(z.imag)] if exact else ["complex", z.real, z.imag]
    if k == "str":
        return ["str", v]
    if k == "list":
        return ["list", [jsonable(x, exact) for x in v]]
    if k == "array":
        return ["array", v.dtype.kind, list(v.shape), [jsonable(x, exact) for x in v.flatten().tolist()] if v.dtype != object else [jsonable(x, exact) for x in v.flatten()]]
    if k == "sym":
        n, vals = sym_signature(v)
        return ["sym", n, vals]
    if k == "regref":
        r, vals = regref_signature(v)
        return ["regref", r, vals]
    if k == "dict":
        return ["dict", [[str(a), jsonable(b, exact)] for a, b in v.items()]]
    if k == "none":
        return None
    return [k, repr(v)]


def content_jsonable(c, with_vars=True, texts=False):
    out = {
        "name": c["name"],
        "version": c["version"],
        "target": [c["target"]["name"], [[k, jsonable(v)] for k, v in c["target"]["options"]]],
        "type": [c["type"]["name"], [[k, jsonable(v)] for k, v in c["type"]["options"]]],
        "parameters": c["parameters"],
        "is_template": c["is_template"],
        "modes": [jsonable(m) for m in c["modes"]],
        "len": c["len"],
        "ops": [
            {
                "op": o["op"],
                "modes": [jsonable(m) for m in o["modes"]],
                "args": None if o["args"] is None else [jsonable(a) for a in o["args"]],
                "kwargs": None if o["kwargs"] is None else [[k, jsonable(a)] for k, a in o["kwargs"]],
                "extra_keys": o["extra_keys"],
            }
            for o in c["ops"]
        ],
    }
    if with_vars:
        out["variables"] = [[k, jsonable(v)] for k, v in c["variables"].items()]
    return out


def digest(p, with_vars=False):
    c = content_jsonable(program_content(p), with_vars=with_vars)
    return hashlib.sha1(json.dumps(c, sort_keys=True).encode()).hexdigest()


def show(v, limit=160):
    try:
        s = json.dumps(jsonable(v, exact=False))
    except Exception:
        s = repr(v)
    return s if len(s) <= limit else s[: limit - 3] + "..."


# ------------------------------------------------------------ real versus real


class Cfg:
    """Comparison configuration.

    numbers: 'exact' (kind class, ==, sign of zero), 'ulps' (same kind class,
    integers exactly, floats within relative `rtol`) or 'close' (relative
    tolerance `rtol`, kinds int/float interchangeable).
    sym_rtol: relative tolerance for symbolic / register arguments.
    """

    def __init__(self, numbers="exact", rtol=1e-9, sym_rtol=1e-9, seed="cmp", array_dtype=True, atol=0.0, mixed_sym=False):
        # mixed_sym: a symbolic value may be compared with a plain number or with a symbolic value over other
        # symbols; both are evaluated at generic points of the union of their symbols (used where a parameter
        # cancels identically, so that the implementation is free to deliver a constant expression or a number)
        self.mixed_sym = mixed_sym
        self.numbers = numbers
        self.rtol = rtol
        self.atol = atol
        self.sym_rtol = sym_rtol
        self.seed = seed
        self.array_dtype = array_dtype


def _num_equal_exact(a, b):
    ka, kb = kind(a), kind(b)
    if ka != kb:
        return False
    if ka == "int":
        return int(a) == int(b)
    if ka == "bool":
        return bool(a) == bool(b)
    if ka == "float":
        a, b = float(a), float(b)
        return a == b and math.copysign(1, a) == math.copysign(1, b)
    za, zb = complex(a), complex(b)
    return (
        za == zb
        and math.copysign(1, za.real) == math.copysign(1, zb.real)
        and math.copysign(1, za.imag) == math.copysign(1, zb.imag)
    )


def _num_close(a, b, rtol, atol=0.0):
    if kind(a) == "bool" or kind(b) == "bool":
        return kind(a) == kind(b) and bool(a) == bool(b)
    za, zb = complex(a), complex(b)
    return abs(za - zb) <= rtol * max(abs(za), abs(zb)) + atol + 1e-300


def _points(names, seed, k):
    """k assignments name -> generic real value away from 0."""
    out = []
    for i in range(k):
        rr = random.Random("%s/%d" % (seed, i))
        out.append({n: rr.choice([-1, 1]) * rr.uniform(0.3, 3.0) for n in sorted(names)})
    return out


def eval_sym(expr, point):
    sub = {s: sym.Float(point[str(s)], 17) for s in expr.free_symbols}
    if out_of_machine_range(expr, sub):
        raise OverflowError("outside the range of a double at this point")
    return complex(expr.xreplace(sub).evalf(25))


def _sym_agree(fa, fb, names, cfg, path, out, what):
    """fa, fb: point -> complex (may raise).  Majority of usable points must agree."""
    good = bad = 0
    worst = None
    for pt in _points(names, cfg.seed + "/" + path, 7):
        try:
            za = fa(pt)
            zb = fb(pt)
        except Exception:
            continue
        if not (math.isfinite(za.real) and math.isfinite(za.imag) and math.isfinite(zb.real) and math.isfinite(zb.imag)):
            continue
        if abs(za - zb) <= cfg.sym_rtol * max(abs(za), abs(zb), 1e-6):
            good += 1
        else:
            bad += 1
            worst = (pt, za, zb)
    if good + bad == 0:
        UNCHECKABLE[0] += 1
    elif bad > good:
        out.append((path, "value:" + what, repr(worst[1]), repr(worst[2]) + " at " + json.dumps(worst[0])))


def diff_values(a, b, path, cfg, out):
    ka, kb = kind(a), kind(b)
    numeric = ("int", "float", "complex", "bool")
    if ka in numeric and kb in numeric:
        if cfg.numbers == "exact":
            if not _num_equal_exact(a, b):
                out.append((path, "number:%s!=%s" % (ka, kb) if ka != kb else "number:%s" % ka, show(a), show(b)))
        elif cfg.numbers == "ulps":
            # same kind; integers and booleans exactly, floats/complex within rtol
            if ka != kb:
                out.append((path, "number:%s!=%s" % (ka, kb), show(a), show(b)))
            elif ka in ("int", "bool"):
                if int(a) != int(b):
                    out.append((path, "number:%s" % ka, show(a), show(b)))
            elif not _num_close(a, b, cfg.rtol, cfg.atol):
                out.append((path, "number-ulps:%s" % ka, show(a), show(b)))
            elif ka == "float" and float(a) == 0.0 and float(b) == 0.0 and math.copysign(1, float(a)) != math.copysign(1, float(b)):
                out.append((path, "number-sign-of-zero", show(a), show(b)))
        else:
            if not _num_close(a, b, cfg.rtol, cfg.atol):
                out.append((path, "number-close:%s/%s" % (ka, kb), show(a), show(b)))
        return
    if cfg.mixed_sym and "sym" in (ka, kb) and ka in numeric + ("sym",) and kb in numeric + ("sym",) and "bool" not in (ka, kb):
        names = set()
        for v in (a, b):
            if kind(v) == "sym":
                names |= {str(s) for s in v.free_symbols}
        fa = (lambda pt: eval_sym(a, pt)) if ka == "sym" else (lambda pt: complex(a))
        fb = (lambda pt: eval_sym(b, pt)) if kb == "sym" else (lambda pt: complex(b))
        _sym_agree(fa, fb, names, cfg, path, out, "mixed")
        return
    if ka != kb:
        # a symbolic value that has become a plain number (or the reverse) is a kind change
        out.append((path, "kind:%s!=%s" % (ka, kb), show(a), show(b)))
        return
    if ka == "str":
        if a != b:
            out.append((path, "str", show(a), show(b)))
    elif ka == "list":
        if len(a) != len(b):
            out.append((path, "list-length", show(a), show(b)))
        else:
            for i, (x, y) in enumerate(zip(a, b)):
                diff_values(x, y, "%s[%d]" % (path, i), cfg, out)
    elif ka == "array":
        if a.shape != b.shape:
            out.append((path, "array-shape", str(a.shape), str(b.shape)))
            return
        if cfg.array_dtype and a.dtype.kind != b.dtype.kind:
            out.append((path, "array-dtype", a.dtype.kind, b.dtype.kind))
            return
        for idx in np.ndindex(a.shape):
            diff_values(a[idx], b[idx], "%s%s" % (path, list(idx)), cfg, out)
    elif ka == "sym":
        na = {str(s) for s in a.free_symbols}
        nb = {str(s) for s in b.free_symbols}
        if na != nb:
            out.append((path, "sym-symbols", str(sorted(na)), str(sorted(nb))))
            return
        _sym_agree(lambda pt: eval_sym(a, pt), lambda pt: eval_sym(b, pt), na, cfg, path, out, "sym")
    elif ka == "regref":
        ra, rb = list(a.regrefs), list(b.regrefs)
        if sorted(ra) != sorted(rb) or len(set(ra)) != len(ra) or len(set(rb)) != len(rb):
            out.append((path, "regref-registers", str(ra), str(rb)))
            return
        names = {"q%d" % r for r in ra}
        _sym_agree(
            lambda pt: complex(a.func(*[pt["q%d" % r] for r in ra])),
            lambda pt: complex(b.func(*[pt["q%d" % r] for r in rb])),
            names, cfg, path, out, "regref",
        )
    elif ka == "dict":
        if list(a.keys()) != list(b.keys()):
            out.append((path, "dict-keys", str(list(a)), str(list(b))))
        else:
            for k in a:
                diff_values(a[k], b[k], "%s.%s" % (path, k), cfg, out)
    elif ka == "none":
        pass
    else:
        if repr(a) != repr(b):
            out.append((path, "other", show(a), show(b)))


def diff_real(ca, cb, cfg=None, variables=False, skip=()):
    """Differences between two program contents (lists of (path, reason, a, b))."""
    cfg = cfg or Cfg()
    out = []
    for key in ("name", "version"):
        if key not in skip and ca[key] != cb[key]:
            out.append((key, "text", repr(ca[key]), repr(cb[key])))
    for key in ("target", "type"):
        if key in skip:
            continue
        if ca[key]["name"] != cb[key]["name"]:
            out.append((key + ".name", "text", repr(ca[key]["name"]), repr(cb[key]["name"])))
        oa, ob = ca[key]["options"], cb[key]["options"]
        if [k for k, _ in oa] != [k for k, _ in ob]:
            out.append((key + ".options", "option-keys", str([k for k, _ in oa]), str([k for k, _ in ob])))
        else:
            for (k, x), (_, y) in zip(oa, ob):
                diff_values(x, y, "%s.options.%s" % (key, k), cfg, out)
    if "parameters" not in skip and ca["parameters"] != cb["parameters"]:
        out.append(("parameters", "parameter-set", str(ca["parameters"]), str(cb["parameters"])))
    if "parameters" not in skip and ca["is_template"] != cb["is_template"]:
        out.append(("is_template", "bool", str(ca["is_template"]), str(cb["is_template"])))
    if len(ca["ops"]) != len(cb["ops"]):
        out.append(("ops", "operation-count", str(len(ca["ops"])), str(len(cb["ops"]))))
    for i, (x, y) in enumerate(zip(ca["ops"], cb["ops"])):
        p = "ops[%d]" % i
        if x["op"] != y["op"]:
            out.append((p + ".op", "text", repr(x["op"]), repr(y["op"])))
        if len(x["modes"]) != len(y["modes"]):
            out.append((p + ".modes", "mode-count", str(x["modes"]), str(y["modes"])))
        else:
            for j, (m, n) in enumerate(zip(x["modes"], y["modes"])):
                if kind(m) != "int" or kind(n) != "int" or int(m) != int(n):
                    out.append(("%s.modes[%d]" % (p, j), "mode", show(m), show(n)))
        if (x["args"] is None) != (y["args"] is None):
            out.append((p + ".args", "arglist-presence", show(x["args"]), show(y["args"])))
            continue
        if x["args"] is None:
            continue
        if len(x["args"]) != len(y["args"]):
            out.append((p + ".args", "arg-count", show(x["args"]), show(y["args"])))
        else:
            for j, (u, v) in enumerate(zip(x["args"], y["args"])):
                diff_values(u, v, "%s.args[%d]" % (p, j), cfg, out)
        kx, ky = [k for k, _ in x["kwargs"]], [k for k, _ in y["kwargs"]]
        if kx != ky:
            out.append((p + ".kwargs", "kwarg-keys", str(kx), str(ky)))
        else:
            for (k, u), (_, v) in zip(x["kwargs"], y["kwargs"]):
                diff_values(u, v, "%s.kwargs.%s" % (p, k), cfg, out)
    if variables:
        va, vb = ca["variables"], cb["variables"]
        if set(va) != set(vb):
            out.append(("variables", "variable-names", str(sorted(va)), str(sorted(vb))))
        else:
            for k in va:
                diff_values(va[k], vb[k], "variables.%s" % k, cfg, out)
    return out


# ------------------------------------------------------- reference versus real

_KCH = {"int": "i", "float": "f", "complex": "c"}


_ref_points = refsem.ref_points
ref_depends_on_all = refsem.ref_depends_on_all


def diff_ref_value(r, x, path, out, seed="ref"):
    """r: reference value (V, Sym, Arr, PName, list), x: delivered value."""
    kx = kind(x)
    if isinstance(r, list):
        if kx != "list":
            out.append((path, "kind:list!=%s" % kx, repr(r), show(x)))
        elif len(r) != len(x):
            out.append((path, "list-length", str(len(r)), str(len(x))))
        else:
            for i, (a, b) in enumerate(zip(r, x)):
                diff_ref_value(a, b, "%s[%d]" % (path, i), out, seed)
        return
    if isinstance(r, PName):
        if kx != "str" or x != r.name:
            out.append((path, "pname", r.name, show(x)))
        return
    if isinstance(r, Arr):
        if kx != "array":
            out.append((path, "kind:array!=%s" % kx, repr(r.shape), show(x)))
            return
        if x.ndim != 2 or tuple(x.shape) != r.shape:
            out.append((path, "array-shape", str(r.shape), str(tuple(x.shape))))
            return
        want = "O" if r.has_sym() else {"i": "i", "f": "f", "c": "c"}[r.kind]
        if x.dtype.kind != want:
            out.append((path, "array-dtype", want, x.dtype.kind))
            return
        for i, row in enumerate(r.rows):
            for j, e in enumerate(row):
                diff_ref_value(e, x[i][j], "%s[%d,%d]" % (path, i, j), out, seed)
        return
    if isinstance(r, Sym):
        regs, params = r.regs(), r.params()
        if regs:
            if kx != "regref":
                out.append((path, "kind:regref!=%s" % kx, refsem.show_tree(r.tree), show(x)))
                return
            listed = list(x.regrefs)
            if sorted(listed) != sorted(regs) or len(set(listed)) != len(listed):
                out.append((path, "regref-registers", str(sorted(regs)), str(listed)))
                return
            leaves = {("reg", n) for n in regs}
            good = bad = 0
            worst = None
            # measurement values that are exactly zero (a legitimate outcome), one register at a time:
            # where the reference is confident, the transform must return the value, not raise
            base = _ref_points(leaves, seed + "/" + path + "/zero", 1)[0]
            for n0 in sorted(regs)[:3]:
                for z in (0.0, -0.0):
                    pt = dict(base)
                    pt[("reg", n0)] = V("f", z)
                    try:
                        ref = r.evaluate(pt)
                    except (OOD, ZeroDivisionError, OverflowError, ValueError):
                        continue
                    try:
                        got = complex(x.func(*[pt[("reg", n)].v for n in listed]))
                    except (ZeroDivisionError, OverflowError, FloatingPointError):
                        continue
                    except Exception as e:  # noqa
                        out.append((path, "regref-raises-at-zero", repr(ref), "%s: %s with q%d = %r" % (type(e).__name__, str(e)[:80], n0, z)))
                        return
                    if math.isfinite(got.real) and math.isfinite(got.imag) and abs(got - complex(ref.v)) > refnum.tolerance(ref):
                        out.append((path, "value:regref-at-zero", repr(ref), "%r with q%d = %r" % (got, n0, z)))
                        return
            for pt in _ref_points(leaves, seed + "/" + path, 7):
                try:
                    ref = r.evaluate(pt)
                except (OOD, ZeroDivisionError, OverflowError, ValueError):
                    continue
                try:
                    got = complex(x.func(*[pt[("reg", n)].v for n in listed]))
                except (ZeroDivisionError, OverflowError, FloatingPointError):
                    continue
                except Exception as e:  # noqa
                    bad += 1
                    worst = (pt, ref, "%s: %s" % (type(e).__name__, str(e)[:80]))
                    continue
                if not (math.isfinite(got.real) and math.isfinite(got.imag)):
                    bad += 1
                    worst = (pt, ref, got)
                    continue
                if abs(got - complex(ref.v)) <= refnum.tolerance(ref):
                    good += 1
                else:
                    bad += 1
                    worst = (pt, ref, got)
            if good + bad == 0:
                UNCHECKABLE[0] += 1
            elif bad > good:
                out.append((path, "value:regref", repr(worst[1]), "%r at %r" % (worst[2], {k[1]: v.v for k, v in worst[0].items()})))
                return
            # complex measurement values (heterodyne outcomes are complex numbers).  Fractional powers have branch cuts,
            # near which neither side's rounding is bounded by the propagated error, so this probe only speaks when at
            # least three points could be evaluated and the transform is wrong at every one of them
            cgood = cbad = 0
            cworst = None
            for i in range(6):
                rr = random.Random("%s/%s/cplx/%d" % (seed, path, i))
                pt = {lf: V("c", complex(rr.choice([-1, 1]) * rr.uniform(0.3, 3.0), rr.choice([-1, 1]) * rr.uniform(0.3, 3.0))) for lf in sorted(leaves)}
                try:
                    ref = r.evaluate(pt)
                    got = complex(x.func(*[pt[("reg", n)].v for n in listed]))
                except Exception:  # noqa: not evaluable here on one side or the other
                    continue
                if not (math.isfinite(got.real) and math.isfinite(got.imag)):
                    continue
                if abs(got - complex(ref.v)) <= max(refnum.tolerance(ref), 1e-9 * abs(complex(ref.v))):
                    cgood += 1
                else:
                    cbad += 1
                    cworst = (pt, ref, got)
            COMPLEX_PROBES[0] += cgood + cbad
            if cbad >= 3 and cgood == 0:
                out.append((path, "value:regref-at-complex-values", repr(cworst[1]), "%r at %r" % (cworst[2], {k[1]: v.v for k, v in cworst[0].items()})))
            return
        if kx != "sym":
            out.append((path, "kind:sym!=%s" % kx, refsem.show_tree(r.tree), show(x)))
            return
        names = {str(s) for s in x.free_symbols}
        if names != set(params):
            out.append((path, "sym-symbols", str(sorted(params)), str(sorted(names))))
            return
        leaves = {("param", n) for n in params}
        good = bad = 0
        worst = None
        for pt in _ref_points(leaves, seed + "/" + path, 7):
            try:
                ref = r.evaluate(pt)
                got = eval_sym(x, {k[1]: v.v for k, v in pt.items()})
            except (OOD, ZeroDivisionError, OverflowError, ValueError, TypeError):
                continue
            if abs(got - complex(ref.v)) <= refnum.tolerance(ref):
                good += 1
            else:
                bad += 1
                worst = (pt, ref, got)
        if good + bad == 0:
            UNCHECKABLE[0] += 1
        elif bad > good:
            out.append((path, "value:sym", repr(worst[1]), repr(worst[2])))
        return
    # plain scalar
    if r.k == "b":
        if kx != "bool" or bool(x) != r.v:
            out.append((path, "bool", repr(r.v), show(x)))
        return
    if r.k == "s":
        if kx != "str" or x != r.v:
            out.append((path, "str", repr(r.v), show(x)))
        return
    if kx not in ("int", "float", "complex"):
        out.append((path, "kind:%s!=%s" % (r.k, kx), repr(r), show(x)))
        return
    if isinstance(r, refnum.ApproxInt):
        if kx != "int":
            out.append((path, "numkind:i!=%s" % _KCH[kx], repr(r), show(x)))
        elif abs(int(x) - r.v) > 2 * r.e:
            out.append((path, "int-value", repr(r), show(x)))
        return
    loose = isinstance(r, LooseV)
    if not loose and _KCH[kx] != r.k:
        out.append((path, "numkind:%s!=%s" % (r.k, _KCH[kx]), repr(r), show(x)))
        return
    if r.k == "i" and not loose:
        if int(x) != r.v:
            out.append((path, "int-value", repr(r.v), show(x)))
        return
    z = complex(x)
    if not (math.isfinite(z.real) and math.isfinite(z.imag)):
        out.append((path, "non-finite", repr(r), show(x)))
        return
    if abs(z - complex(r.v)) > refnum.tolerance(r):
        out.append((path, "value:%s" % r.k, repr(r), show(x)))
    elif r.k == "f" and r.e == 0 and r.v == 0 and kx == "float" and math.copysign(1, r.v) != math.copysign(1, float(x)):
        # an exact zero (a literal, possibly negated) keeps its sign
        out.append((path, "sign-of-zero", repr(r), show(x)))


def diff_ref(ref, c, variables=False, seed="ref"):
    """Differences between a reference program and the content of a real one."""
    out = []
    if ref.name != c["name"]:
        out.append(("name", "text", repr(ref.name), repr(c["name"])))
    if ref.version != c["version"]:
        out.append(("version", "text", repr(ref.version), repr(c["version"])))
    for key, rv in (("target", ref.target), ("type", ref.type)):
        if rv["name"] != c[key]["name"]:
            out.append((key + ".name", "text", repr(rv["name"]), repr(c[key]["name"])))
        rk = [k for k, _ in rv["options"]]
        ck = [k for k, _ in c[key]["options"]]
        if rk != ck:
            out.append((key + ".options", "option-keys", str(rk), str(ck)))
        else:
            for (k, a), (_, b) in zip(rv["options"], c[key]["options"]):
                diff_ref_value(a, b, "%s.options.%s" % (key, k), out, seed)
    if len(ref.ops) != len(c["ops"]):
        out.append(("ops", "operation-count", str(len(ref.ops)), str(len(c["ops"]))))
    for i, (r, o) in enumerate(zip(ref.ops, c["ops"])):
        p = "ops[%d]" % i
        if r.name != o["op"]:
            out.append((p + ".op", "text", repr(r.name), repr(o["op"])))
        if len(r.modes) != len(o["modes"]):
            out.append((p + ".modes", "mode-count", str(r.modes), show(o["modes"])))
        else:
            for j, (m, n) in enumerate(zip(r.modes, o["modes"])):
                if kind(n) != "int":
                    out.append(("%s.modes[%d]" % (p, j), "mode-not-integer", str(m), show(n)))
                elif int(n) != m:
                    out.append(("%s.modes[%d]" % (p, j), "mode", str(m), show(n)))
        if (r.args is None) != (o["args"] is None):
            out.append((p + ".args", "arglist-presence", repr(r.args), show(o["args"])))
            continue
        if r.args is None:
            continue
        if len(r.args) != len(o["args"]):
            out.append((p + ".args", "arg-count", str(len(r.args)), str(len(o["args"]))))
        else:
            for j, (a, b) in enumerate(zip(r.args, o["args"])):
                diff_ref_value(a, b, "%s.args[%d]" % (p, j), out, seed)
        rk = [k for k, _ in r.kwargs]
        ok = [k for k, _ in o["kwargs"]]
        if rk != ok:
            empties = [k for k, v in r.kwargs if isinstance(v, list) and not v]
            if [k for k in rk if k not in empties] == ok and empties:
                out.append((p + ".kwargs", "empty-list-kwarg-dropped", str(rk), str(ok)))
                for (k, a) in r.kwargs:
                    if k in empties:
                        continue
                    diff_ref_value(a, dict(o["kwargs"])[k], "%s.kwargs.%s" % (p, k), out, seed)
            else:
                out.append((p + ".kwargs", "kwarg-keys", str(rk), str(ok)))
        else:
            for (k, a), (_, b) in zip(r.kwargs, o["kwargs"]):
                diff_ref_value(a, b, "%s.kwargs.%s" % (p, k), out, seed)
    rm = sorted(ref.modes)
    try:
        cm = sorted(int(m) for m in c["modes"])
    except Exception:
        cm = None
    if cm != rm:
        out.append(("modes", "mode-set", str(rm), show(c["modes"])))
    if c["len"] != len(ref.ops):
        out.append(("len", "length", str(len(ref.ops)), str(c["len"])))
    if variables:
        for k, rv in ref.vars.items():
            if k not in c["variables"]:
                out.append(("variables." + k, "variable-missing", repr(rv), ""))
            else:
                diff_ref_value(rv, c["variables"][k], "variables." + k, out, seed)
    return out


# ---------------------------------------------------------------- alias graphs


def alias_ids(obj, _seen=None):
    """ids of all mutable containers reachable from obj (lists, dicts, sets,
    arrays, programs, register transforms).  Immutable leaves are ignored."""
    from blackbird.program import BlackbirdProgram

    RRT = _rrt()
    seen = {} if _seen is None else _seen
    st = [obj]
    while st:
        x = st.pop()
        if isinstance(x, (list, dict, set, np.ndarray, BlackbirdProgram, RRT)):
            if id(x) in seen:
                continue
            seen[id(x)] = type(x).__name__
            if isinstance(x, dict):
                st.extend(x.values())
            elif isinstance(x, (list, set)):
                st.extend(x)
            elif isinstance(x, np.ndarray):
                if x.dtype == object:
                    st.extend(x.flatten().tolist())
                if x.base is not None and isinstance(x.base, np.ndarray):
                    st.append(x.base)
            elif isinstance(x, BlackbirdProgram):
                st.extend(vars(x).values())
            # register transforms hold only immutable SymPy data and a function
        elif isinstance(x, tuple):
            st.extend(x)
    return seen
