"""Check runner: workers, verdicts, evidence, known findings, replays (DESIGN §1.6).

``python -m bbverif check <ID> --tier quick|thorough``

* exit 0 - no violation outside the known-findings list and every
  "conclusive" threshold met; one ``KNOWN-FINDING:`` line per open finding seen;
* exit 1 - ``VIOLATION property=<id> replay=<path>`` per distinct unlisted
  violation;
* exit 2 - ``INCONCLUSIVE property=<id> reason=...`` (deciding hook never reached,
  too few non-trivial cases, worker crash/timeout, grammar construct unknown).
"""
import collections
import hashlib
import importlib
import json
import os
import random
import subprocess
import sys
import tempfile
import time
import traceback

from . import env, monitor

VERIF = env.VERIF
KNOWN_FILE = os.path.join(VERIF, "known_findings.json")
NWORKERS = int(os.environ.get("BBVERIF_WORKERS", "16"))


def load_check(pid):
    return importlib.import_module("bbverif.checks.%s" % pid.lower())


class Inconclusive(Exception):
    pass


class Ctx:
    """Per-worker recording context handed to a check's ``run(ctx)``."""

    MAX_WITNESS = 3

    def __init__(self, pid, tier, seed, worker, nworkers):
        self.pid = pid
        self.tier = tier
        self.seed = seed
        self.worker = worker
        self.nworkers = nworkers
        self.evaluations = 0
        self.nontrivial = set()
        self.all_hashes = set()
        self.tags = collections.Counter()
        self.ood = collections.Counter()
        self.obs = collections.Counter()
        self.hooks = collections.Counter()
        self.violations = {}
        self.violation_counts = collections.Counter()
        self.samples = []
        self.extra = {}
        self.t0 = time.time()

    # deterministic randomness
    def rng(self, *key):
        return random.Random("%s/%s/%s/%s" % (self.seed, self.pid, self.worker, "/".join(str(k) for k in key)))

    @staticmethod
    def scaled(total):
        """BBVERIF_BUDGET_SCALE shrinks the workload for the mutation survey of
        tools/automut.py; no registered command sets it, and a run that does is
        told apart in the evidence (budget_scale)."""
        f = float(os.environ.get("BBVERIF_BUDGET_SCALE", "1") or 1)
        return total if f == 1 else max(1, int(total * f))

    def share(self, total):
        """This worker's share of a total number of cases."""
        q, r = divmod(self.scaled(total), self.nworkers)
        return q + (1 if self.worker < r else 0)

    def my(self, index):
        """Round-robin ownership of an enumerated item."""
        return index % self.nworkers == self.worker

    def case(self, payload, nontrivial=True, tags=()):
        """Count one executed case.  `payload` identifies it (hashed for distinctness)."""
        monitor.STEPS.reset()
        self.evaluations += 1
        h = hashlib.sha1(payload.encode("utf-8", "replace") if isinstance(payload, str) else json.dumps(payload, sort_keys=True, default=str).encode()).hexdigest()[:16]
        self.all_hashes.add(h)
        if nontrivial:
            self.nontrivial.add(h)
        for t in tags:
            self.tags[t] += 1
        return h

    def out_of_domain(self, reason):
        self.ood[reason] += 1

    def observe(self, name, n=1):
        self.obs[name] += n

    def hook(self, name, n=1):
        self.hooks[name] += n

    def sample(self, obj, limit=2):
        if len(self.samples) < limit:
            self.samples.append(obj)

    def violation(self, key, summary, witness):
        """Record a violation of the property.  `key` names the mechanism as
        recognised from the witness itself (DESIGN §1.6); `witness` must be
        JSON-able and sufficient for ``replay``."""
        self.violation_counts[key] += 1
        lst = self.violations.setdefault(key, [])
        if len(lst) < self.MAX_WITNESS:
            lst.append({"summary": summary, "witness": witness})

    def dump(self):
        return {
            "worker": self.worker,
            "evaluations": self.evaluations,
            "nontrivial": sorted(self.nontrivial),
            "distinct": len(self.all_hashes),
            "tags": dict(self.tags),
            "ood": dict(self.ood),
            "obs": dict(self.obs),
            "hooks": dict(self.hooks),
            "violations": self.violations,
            "violation_counts": dict(self.violation_counts),
            "samples": self.samples,
            "extra": self.extra,
            "wall_s": time.time() - self.t0,
        }


def _magnitude(n):
    return "0" if n == 0 else "<%d" % (10 ** len(str(n)))


def worker_main(pid, tier, seed, worker, nworkers, outpath):
    from . import monitor

    env.setup()
    mod = load_check(pid)
    ctx = Ctx(pid, tier, seed, worker, nworkers)
    cov = monitor.Coverage()
    cov.start()
    monitor.STEPS.start()
    status = "ok"
    err = None
    try:
        mod.run(ctx)
    except Inconclusive as e:
        status = "inconclusive"
        err = str(e)
    except Exception:
        status = "crash"
        err = traceback.format_exc()
    cov.stop()
    monitor.STEPS.stop()
    ctx.obs["largest number of loop iterations in the package within one case: %s" % _magnitude(monitor.STEPS.max_seen)] += 1
    out = ctx.dump()
    out["status"] = status
    out["error"] = err
    out["coverage"] = cov.report()
    with open(outpath, "w") as f:
        json.dump(out, f, default=str)


def load_known():
    try:
        with open(KNOWN_FILE) as f:
            return json.load(f).get("findings", [])
    except FileNotFoundError:
        return []


def run_check(pid, tier, seed=None, workers=None, quiet=False):
    t0 = time.time()
    pid = pid.upper()
    seed = int(os.environ.get("VERIF_SEED", "0")) if seed is None else seed
    mod = load_check(pid)
    W = getattr(mod, "WORKERS", NWORKERS)
    if isinstance(W, dict):
        W = W[tier]
    nworkers = workers or W
    nworkers = max(1, min(nworkers, NWORKERS))
    watchdog = getattr(mod, "WATCHDOG", {"quick": 900, "thorough": 5400})[tier]
    tmp = tempfile.mkdtemp(prefix="bbverif-%s-" % pid, dir=os.environ.get("BBVERIF_TMP") or None)
    procs = []
    wenv = dict(os.environ)
    wenv[env.GUARD] = "1"
    wenv.setdefault("PYTHONHASHSEED", "0")
    wenv["PYTHONDONTWRITEBYTECODE"] = "1"
    wenv["PYTHONPATH"] = VERIF + os.pathsep + wenv.get("PYTHONPATH", "")
    wenv["OMP_NUM_THREADS"] = "1"
    wenv["OPENBLAS_NUM_THREADS"] = "1"
    for w in range(nworkers):
        if hasattr(mod, "worker_env"):
            wenv = dict(wenv)
            wenv.update(mod.worker_env(w, nworkers, tier))
        out = os.path.join(tmp, "w%d.json" % w)
        log = open(os.path.join(tmp, "w%d.log" % w), "w")
        p = subprocess.Popen(
            [sys.executable, "-m", "bbverif", "worker", pid, "--tier", tier, "--seed", str(seed), "--index", str(w), "--of", str(nworkers), "--out", out],
            cwd=VERIF, env=wenv, stdout=log, stderr=subprocess.STDOUT,
        )
        procs.append((p, out, log))
    results = []
    problems = []
    deadline = time.time() + watchdog
    for (p, out, log) in procs:
        try:
            p.wait(timeout=max(1, deadline - time.time()))
        except subprocess.TimeoutExpired:
            p.kill()
            p.wait()
            problems.append("worker timeout after %ds" % watchdog)
        log.close()
        if os.path.exists(out):
            try:
                with open(out) as f:
                    results.append(json.load(f))
            except Exception as e:
                problems.append("unreadable worker result: %s" % e)
        else:
            with open(log.name) as f:
                tail = f.read()[-1500:]
            problems.append("worker produced no result (exit %s): %s" % (p.returncode, tail))
    for f in os.listdir(tmp):
        try:
            os.unlink(os.path.join(tmp, f))
        except OSError:
            pass
    try:
        os.rmdir(tmp)
    except OSError:
        pass

    # ---- merge
    evaluations = sum(r["evaluations"] for r in results)
    nontrivial = set()
    tags = collections.Counter()
    ood = collections.Counter()
    obs = collections.Counter()
    hooks = collections.Counter()
    vio = {}
    vio_counts = collections.Counter()
    samples = []
    funcs = set()
    lines_hit = collections.defaultdict(set)
    extra = {}
    for r in results:
        nontrivial.update(r["nontrivial"])
        tags.update(r["tags"])
        ood.update(r["ood"])
        obs.update(r["obs"])
        hooks.update(r["hooks"])
        vio_counts.update(r["violation_counts"])
        for k, lst in r["violations"].items():
            vio.setdefault(k, []).extend(lst)
        samples.extend(r["samples"])
        funcs.update(r["coverage"]["functions"])
        for fn, ls in r["coverage"]["lines"].items():
            lines_hit[fn].update(ls)
        for k, v in r.get("extra", {}).items():
            extra.setdefault(k, []).append(v)
        if r["status"] == "inconclusive":
            problems.append("worker %s inconclusive: %s" % (r["worker"], r["error"]))
        elif r["status"] != "ok":
            problems.append("worker %s crashed: %s" % (r["worker"], (r["error"] or "")[-1200:]))

    if hasattr(mod, "finish"):
        # cross-worker verdicts (e.g. hash-seed sweeps); may add violations/problems
        fin = mod.finish(tier, seed, results, extra)
        for (k, summary, witness) in fin.get("violations", []):
            vio.setdefault(k, []).append({"summary": summary, "witness": witness})
            vio_counts[k] += 1
        problems.extend(fin.get("problems", []))
        obs.update(fin.get("obs", {}))
        if fin.get("samples"):
            samples = fin["samples"] + samples

    from . import monitor

    fcov = monitor.function_coverage(lines_hit, getattr(mod, "FUNCTIONS", []))
    if os.environ.get("BBVERIF_LINES_DIR"):
        # tools/uncovered.py: union of the package lines each check executed (no registered command sets this)
        os.makedirs(os.environ["BBVERIF_LINES_DIR"], exist_ok=True)
        with open(os.path.join(os.environ["BBVERIF_LINES_DIR"], "%s.%s.json" % (pid, tier)), "w") as f:
            json.dump({k: sorted(v) for k, v in lines_hit.items()}, f)
    for q in getattr(mod, "REQUIRED_FUNCTIONS", []):
        if q not in funcs:
            problems.append("deciding function %s was never entered" % q)
    for h in getattr(mod, "REQUIRED_HOOKS", []):
        if hooks.get(h, 0) == 0:
            problems.append("deciding hook %s was never reached" % h)
    minimum = getattr(mod, "MIN_NONTRIVIAL", {"quick": 50, "thorough": 200})[tier]
    minimum = Ctx.scaled(minimum)
    if len(nontrivial) < minimum:
        problems.append("only %d distinct non-trivial cases (< %d)" % (len(nontrivial), minimum))
    for t in getattr(mod, "REQUIRED_TAGS", []):
        if tags.get(t, 0) == 0:
            problems.append("feature %s never exercised" % t)

    # ---- known findings
    known = [k for k in load_known() if k.get("property") == pid]
    open_keys = {k["key"]: k for k in known if k.get("status") == "open"}
    out_lines = []
    new_violations = []
    known_seen = {}
    for key in sorted(vio):
        if key in open_keys:
            known_seen[key] = vio_counts[key]
        else:
            new_violations.append(key)
    for key, entry in sorted(open_keys.items()):
        out_lines.append("KNOWN-FINDING: property=%s %s [%s; seen %d times in this run]" % (pid, entry["description"], key, known_seen.get(key, 0)))
    replay_paths = []
    if new_violations:
        rdir = os.environ.get("BBVERIF_REPLAY_DIR") or os.path.join(VERIF, "replays")
        os.makedirs(rdir, exist_ok=True)
        new_violations.sort(key=lambda k: -vio_counts[k])
        if len(new_violations) > 12:
            out_lines.append("note: %d distinct violation mechanisms; replay files written for the 12 most frequent (all are counted in the evidence)" % len(new_violations))
        for key in new_violations[:12]:
            w = vio[key][0]
            h = hashlib.sha1(key.encode()).hexdigest()[:10]
            path = os.path.join(rdir, "%s-%s.json" % (pid, h))
            with open(path, "w") as f:
                json.dump({"property": pid, "key": key, "tier": tier, "seed": seed, "count": vio_counts[key], "summary": w["summary"], "witness": w["witness"], "more": vio[key][1:]}, f, indent=1, default=str)
            replay_paths.append(path)
            out_lines.append("VIOLATION property=%s replay=%s" % (pid, path))
            out_lines.append("  mechanism=%s count=%d: %s" % (key, vio_counts[key], w["summary"][:300]))

    verdict = "violated" if new_violations else ("inconclusive" if problems else "held")
    level = getattr(mod, "LEVEL", "exploration")
    coverage = {
        "evaluations": evaluations,
        "distinct_nontrivial": len(nontrivial),
        "rule": mod.RULE,
        "samples": samples[:6] if samples else [],
        "features": dict(tags.most_common()),
        "out_of_domain": dict(ood.most_common()),
        "observations": dict(obs.most_common()),
        "hooks": dict(hooks.most_common()),
        "function_line_coverage": fcov,
        "repo_functions_entered": len(funcs),
        "known_findings_seen": known_seen,
        "violation_mechanisms": dict(vio_counts),
        "workers": len(results),
        "budget_scale": float(os.environ.get("BBVERIF_BUDGET_SCALE", "1") or 1),
        "verdict": verdict,
        "problems": problems,
        "repo": env.REPO,
    }
    if hasattr(mod, "coverage_extra"):
        coverage.update(mod.coverage_extra(tier, results, extra))
    if level == "translation_validation":
        coverage.setdefault("programs", evaluations)
        coverage.setdefault("disagreements_checked", len(new_violations))
    evidence = {
        "property_id": pid,
        "tier": tier,
        "seed": seed,
        "level": level,
        "coverage": coverage,
        "assumptions": list(getattr(mod, "ASSUMPTIONS", [])),
        "wall_s": round(time.time() - t0, 2),
        "violations": len(new_violations),
    }
    # evidence of runs against a scratch tree (BBVERIF_REPO set by tools/mutant.py) goes elsewhere
    edir = os.environ.get("BBVERIF_EVIDENCE_DIR") or os.path.join(VERIF, "evidence")
    os.makedirs(edir, exist_ok=True)
    with open(os.path.join(edir, "%s.json" % pid), "w") as f:
        json.dump(evidence, f, indent=1, default=str)
        f.write("\n")

    for ln in out_lines:
        print(ln)
    if not quiet:
        print("%s %s seed=%d: %s; %d evaluations, %d distinct non-trivial, %d out of domain, %.1fs" % (
            pid, tier, seed, verdict, evaluations, len(nontrivial), sum(ood.values()), time.time() - t0))
    if new_violations:
        return 1
    if problems:
        for pr in problems:
            print("INCONCLUSIVE property=%s reason=%s" % (pid, pr.replace("\n", " | ")[:1500]))
        return 2
    return 0


def replay(path):
    env.setup()
    with open(path) as f:
        data = json.load(f)
    mod = load_check(data["property"])
    print("replaying %s mechanism=%s" % (data["property"], data["key"]))
    print("recorded:", data["summary"])
    res = mod.replay(data["witness"])
    if res:
        print("REPRODUCED:", res)
        print("VIOLATION property=%s replay=%s" % (data["property"], path))
        return 1
    print("not reproduced on the current tree")
    return 0
