"""Harness-side instrumentation (DESIGN §1.4): coverage monitor, call recorder.

Nothing here edits the repository; wrappers are installed into the imported
``blackbird`` modules of the check process only, never raise and never alter
results.
"""
import os
import sys

from . import env

WATCHED = ("listener.py", "auxiliary.py", "program.py", "utils.py", "error.py", "__init__.py")


def _watched(filename):
    pkg = env.repo_path("blackbird_python", "blackbird") + os.sep
    return filename.startswith(pkg) and os.path.basename(filename) in WATCHED


class Coverage:
    """PEP 669 monitor: functions entered and lines executed in the hand-written
    modules of the package.  Every location disables itself after its first hit,
    so the cost is negligible."""

    TOOL = 3

    def __init__(self):
        self.functions = set()
        self.lines = {}
        self.on = False

    def start(self):
        mon = getattr(sys, "monitoring", None)
        if mon is None:
            return
        try:
            mon.use_tool_id(self.TOOL, "bbverif")
        except ValueError:
            return
        E = mon.events

        def on_start(code, offset):
            if _watched(code.co_filename):
                self.functions.add("%s:%s" % (os.path.basename(code.co_filename), code.co_qualname))
            return mon.DISABLE

        def on_line(code, line):
            fn = code.co_filename
            if _watched(fn):
                self.lines.setdefault(os.path.basename(fn), set()).add(line)
            return mon.DISABLE

        mon.register_callback(self.TOOL, E.PY_START, on_start)
        mon.register_callback(self.TOOL, E.LINE, on_line)
        mon.set_events(self.TOOL, E.PY_START | E.LINE)
        self.on = True

    def stop(self):
        if self.on:
            mon = sys.monitoring
            mon.set_events(self.TOOL, 0)
            mon.free_tool_id(self.TOOL)
            self.on = False

    def report(self):
        return {"functions": sorted(self.functions), "lines": {k: sorted(v) for k, v in self.lines.items()}}


class StepBudgetExceeded(Exception):
    """Raised *inside* repository code by the step monitor."""


class StepBudget:
    """PEP 669 monitor counting backward jumps (loop iterations) executed in the
    hand-written modules of the package since the last reset.  A `while` loop
    that no longer advances would otherwise only show up as a worker running into
    the wall-clock watchdog (inconclusive); a budget in logical steps turns it
    into an exception raised in the looping code - deterministic, independent of
    machine load - which the checks then report like any other unexpected
    exception.  The budget (5 million iterations between two cases) is fifty times
    the largest count observed for a generated case
    (the evidence reports that maximum)."""

    TOOL = 4
    BUDGET = 5_000_000

    def __init__(self):
        self.n = 0
        self.max_seen = 0
        self.on = False

    def reset(self):
        if self.n > self.max_seen:
            self.max_seen = self.n
        self.n = 0

    def start(self):
        mon = getattr(sys, "monitoring", None)
        if mon is None:
            return
        try:
            mon.use_tool_id(self.TOOL, "bbverif-steps")
        except ValueError:
            return

        def on_jump(code, offset, dest):
            if dest > offset:
                return mon.DISABLE  # forward jump: not an iteration
            if not _watched(code.co_filename):
                return mon.DISABLE
            self.n += 1
            if self.n > self.BUDGET:
                self.n = 0
                raise StepBudgetExceeded("more than %d loop iterations in the package since the case began (last in %s, line %d)"
                                         % (self.BUDGET, code.co_qualname, code.co_firstlineno))

        mon.register_callback(self.TOOL, mon.events.JUMP, on_jump)
        mon.set_events(self.TOOL, mon.events.JUMP)
        self.on = True

    def stop(self):
        if self.on:
            mon = sys.monitoring
            mon.set_events(self.TOOL, 0)
            mon.free_tool_id(self.TOOL)
            self.on = False
            self.reset()


STEPS = StepBudget()


def _function_lines():
    """{file: {qualname: set(lines)}} for the watched modules of the tree under test."""
    out = {}
    pkg = env.repo_path("blackbird_python", "blackbird")
    for base in WATCHED:
        path = os.path.join(pkg, base)
        try:
            with open(path, newline="") as f:
                src = f.read()
            top = compile(src, path, "exec")
        except Exception:
            continue
        fl = {}
        st = [top]
        while st:
            co = st.pop()
            own = {ln for (_, _, ln) in co.co_lines() if ln is not None}
            for c in co.co_consts:
                if hasattr(c, "co_lines"):
                    st.append(c)
            if co is not top:
                fl[co.co_qualname] = own - {co.co_firstlineno}
        out[base] = fl
    return out


def function_coverage(lines_hit, wanted):
    """Lines hit / lines present for the functions named 'file.py:qualname'."""
    fl = _function_lines()
    rep = {}
    for w in wanted:
        base, q = w.split(":", 1)
        present = fl.get(base, {}).get(q)
        if present is None:
            rep[w] = "function not found"
            continue
        hit = present & set(lines_hit.get(base, ()))
        rep[w] = "%d/%d lines" % (len(hit), len(present))
    return rep


# ------------------------------------------------------------------ recorder


def blackbird_namespaces():
    return [m for n, m in list(sys.modules.items()) if (n == "blackbird" or n.startswith("blackbird.")) and m is not None]


def wrap_function(name, make_wrapper):
    """Replace function `name` in every blackbird namespace it is bound in.
    make_wrapper(original) -> wrapper.  Returns an undo callable."""
    done = []
    cache = {}
    for m in blackbird_namespaces():
        f = m.__dict__.get(name)
        if f is None or not callable(f) or isinstance(f, type):
            continue
        if getattr(f, "__bbverif_wrapped__", False):
            continue
        w = cache.get(id(f))
        if w is None:
            w = make_wrapper(f)
            w.__bbverif_wrapped__ = True
            cache[id(f)] = w
        setattr(m, name, w)
        done.append((m, name, f))

    def undo():
        for (m, n, f) in done:
            setattr(m, n, f)

    undo.count = len(done)
    return undo


def wrap_method(cls, name, make_wrapper):
    f = cls.__dict__[name]
    w = make_wrapper(f)
    w.__bbverif_wrapped__ = True
    setattr(cls, name, w)

    def undo():
        setattr(cls, name, f)

    return undo
