"""bbverif - runtime monitoring harness for XanaduAI/blackbird (see /verif/DESIGN.md)."""
