"""Reference numbers with running error bounds (DESIGN §1.2).

Values are Python ``int`` (exact), ``float`` and ``complex`` computed with
``math``/``cmath`` - never NumPy - each carrying an absolute error bound that is
propagated to first order through every operation.  Domain decisions (what the
properties' quantifiers exclude) are made here, on the reference value alone,
by raising :class:`OOD`.
"""
import cmath
import math

EPS = 2.0 ** -52
I64 = (-(2 ** 63), 2 ** 63 - 1)
MARGIN = 1e-3


class OOD(Exception):
    """Out of the property's domain (decided by the reference on the input alone)."""

    def __init__(self, reason):
        Exception.__init__(self, reason)
        self.reason = reason


class V:
    """A reference scalar: kind 'i' int, 'f' float, 'c' complex, 'b' bool, 's' str."""

    __slots__ = ("k", "v", "e")

    def __init__(self, k, v, e=0.0):
        self.k = k
        self.v = v
        self.e = e

    def __repr__(self):
        return "V(%s,%r,±%.3g)" % (self.k, self.v, self.e)

    def is_num(self):
        return self.k in "ifc"

    big = False


class BigV(V):
    """An integer *literal* (possibly with a sign) outside the signed 64-bit
    range.  The implementation keeps such a literal as a Python int as long as
    nothing computes with it, so it can be delivered exactly as an argument, a
    list element, an option or an int-loop value; everything else (arithmetic,
    functions, declarations, modes, indices) is out of the reference's domain."""

    __slots__ = ()
    big = True


class ApproxInt(BigV):
    """The integer a *float* of magnitude >= 2**53 converts to when it initialises an ``int`` scalar: every such float
    is integral, so the conversion itself is exact whatever float the implementation computed; the reference knows
    that float within its error bound ``e``.  Deliverable like a BigV (no arithmetic)."""

    __slots__ = ()


def chk(v):
    if v.k == "i":
        if not (I64[0] <= v.v <= I64[1]):
            raise OOD("int64 range")
    else:
        z = complex(v.v)
        if not (math.isfinite(z.real) and math.isfinite(z.imag)):
            raise OOD("non-finite")
        if abs(z) > 1e200:
            raise OOD("magnitude>1e200")
        if not math.isfinite(v.e):
            raise OOD("non-finite bound")
        if v.e > 1e-6 * abs(z) and v.e > 1e-290:
            raise OOD("ill-conditioned (bound>1e-6 relative)")
    return v


def rnd(x):
    # relative rounding error of one operation, plus the absolute error of results in the subnormal range
    return 4 * EPS * abs(x) + 2e-323


def need_num(*vs):
    for v in vs:
        if not isinstance(v, V) or v.k not in "ifc":
            raise OOD("arithmetic on non-number")
        if v.big:
            raise OOD("int64 range")


def kind2(a, b):
    if "c" in (a.k, b.k):
        return "c"
    if "f" in (a.k, b.k):
        return "f"
    return "i"


def conv(v, k):
    if k == "i":
        return v.v
    if k == "f":
        return float(v.v)
    return complex(v.v)


def _bigint_err(a):
    return rnd(a.v) if a.k == "i" and abs(a.v) > 2 ** 53 else 0.0


def add(a, b, sign=1):
    need_num(a, b)
    k = kind2(a, b)
    if k == "i":
        return chk(V("i", a.v + sign * b.v))
    try:
        r = conv(a, k) + sign * conv(b, k)
    except OverflowError:
        raise OOD("overflow")
    return chk(V(k, r, a.e + b.e + rnd(r) + _bigint_err(a) + _bigint_err(b)))


def mul(a, b):
    need_num(a, b)
    k = kind2(a, b)
    if k == "i":
        return chk(V("i", a.v * b.v))
    try:
        av = conv(a, k)
        bv = conv(b, k)
        r = av * bv
    except OverflowError:
        raise OOD("overflow")
    ea = a.e + _bigint_err(a)
    eb = b.e + _bigint_err(b)
    return chk(V(k, r, abs(av) * eb + abs(bv) * ea + ea * eb + 2 * rnd(r)))


def div(a, b):
    need_num(a, b)
    k = kind2(a, b)
    if k == "i":
        k = "f"
    try:
        bv = conv(b, k)
        av = conv(a, k)
    except OverflowError:
        raise OOD("overflow")
    if bv == 0:
        raise OOD("division by zero")
    ea = a.e + _bigint_err(a)
    eb = b.e + _bigint_err(b)
    if abs(bv) <= 2 * eb:
        raise OOD("divisor indistinguishable from zero")
    try:
        r = av / bv
    except (OverflowError, ZeroDivisionError):
        raise OOD("overflow")
    return chk(V(k, r, (ea + abs(r) * eb) / (abs(bv) - eb) + 3 * rnd(r)))


def neg(a):
    need_num(a)
    if a.k == "i":
        return chk(V("i", -a.v))
    return V(a.k, -a.v, a.e)


def power(a, b):
    need_num(a, b)
    if a.k == "i" and b.k == "i":
        if b.v < 0:
            raise OOD("int ** negative int")
        if b.v > 200 and abs(a.v) > 1:
            raise OOD("huge exponent")
        return chk(V("i", a.v ** b.v))
    k = kind2(a, b)
    try:
        av = conv(a, k)
        bv = conv(b, k)
    except OverflowError:
        raise OOD("overflow")
    ea = a.e + _bigint_err(a)
    eb = b.e + _bigint_err(b)
    if k == "f":
        if av < 0 and float(bv) != int(bv):
            raise OOD("negative ** fractional")
        if av < 0 and eb > 0:
            raise OOD("negative base, inexact exponent")
        if av == 0 and bv < 0:
            raise OOD("0 ** negative")
        if av == 0 and ea > 0:
            raise OOD("inexact zero base")
        if av == 0 and bv == 0 and eb > 0:
            raise OOD("0 ** inexact 0")
        if abs(av) <= 2 * ea:
            raise OOD("base indistinguishable from zero")
        try:
            r = math.pow(av, bv)
        except (OverflowError, ValueError):
            raise OOD("pow overflow/domain")
        la = abs(math.log(abs(av))) if av != 0 else 0.0
        rel = (abs(bv) * (ea / abs(av)) if av != 0 else 0.0) + la * eb
        return chk(V("f", r, abs(r) * rel * 1.5 + 8 * rnd(r)))
    if av == 0:
        if ea > 0:
            raise OOD("inexact zero base")
        if bv == 0:
            if eb > 0:
                raise OOD("0 ** inexact 0")
            return V("c", complex(1), 0.0)
        if complex(bv).real <= 0 or complex(bv).imag != 0:
            raise OOD("0 ** non-positive/complex")
        return V("c", complex(0), 0.0)
    if abs(av) <= 2 * ea:
        raise OOD("base indistinguishable from zero")
    try:
        r = av ** bv
        la = abs(cmath.log(av))
    except (OverflowError, ZeroDivisionError, ValueError):
        raise OOD("complex pow")
    # a negative real base sits on the branch cut of log: the sign of a zero
    # imaginary part decides the branch, which the statement does not fix
    zb = complex(bv)
    exact_int_exponent = eb == 0 and zb.imag == 0 and zb.real == int(zb.real)
    if complex(av).imag == 0 and complex(av).real < 0 and not exact_int_exponent:
        raise OOD("branch cut of complex power")
    rel = abs(bv) * (ea / abs(av)) + la * eb
    return chk(V("c", r, abs(r) * rel * 1.5 + (8 + 4 * abs(bv) * la) * EPS * abs(r)))


_MATHNAME = {
    "arcsin": "asin",
    "arccos": "acos",
    "arctan": "atan",
    "arcsinh": "asinh",
    "arccosh": "acosh",
    "arctanh": "atanh",
}


def _f_real(name, x):
    return getattr(math, _MATHNAME.get(name, name))(x)


def _deriv(name, x):
    c = cmath
    try:
        return abs(
            {
                "sin": lambda: c.cos(x),
                "cos": lambda: c.sin(x),
                "tan": lambda: 1 / c.cos(x) ** 2,
                "exp": lambda: c.exp(x),
                "log": lambda: 1 / x,
                "sqrt": lambda: 0.5 / c.sqrt(x),
                "arcsin": lambda: 1 / c.sqrt(1 - x * x),
                "arccos": lambda: 1 / c.sqrt(1 - x * x),
                "arctan": lambda: 1 / (1 + x * x),
                "sinh": lambda: c.cosh(x),
                "cosh": lambda: c.sinh(x),
                "tanh": lambda: 1 / c.cosh(x) ** 2,
                "arcsinh": lambda: 1 / c.sqrt(1 + x * x),
                "arccosh": lambda: 1 / c.sqrt(x * x - 1),
                "arctanh": lambda: 1 / (1 - x * x),
            }[name]()
        )
    except (ZeroDivisionError, OverflowError):
        raise OOD("derivative")


FUNCTIONS = (
    "sqrt", "sin", "cos", "tan", "arcsin", "arccos", "arctan", "sinh", "cosh", "tanh",
    "arcsinh", "arccosh", "arctanh", "exp", "log",
)


def func(name, a):
    need_num(a)
    if a.k == "c":
        raise OOD("complex function argument")
    try:
        x = float(a.v)
    except OverflowError:
        raise OOD("overflow")
    # exactly known arguments at the closed ends of a real domain: the value is
    # exact too (NumPy returns these correctly rounded values; seen for all of them)
    if a.e == 0 and _bigint_err(a) == 0:
        end = {("arcsin", 1.0): math.pi / 2, ("arcsin", -1.0): -math.pi / 2, ("arccos", 1.0): 0.0, ("arccos", -1.0): math.pi,
               ("arccosh", 1.0): 0.0, ("sqrt", 0.0): 0.0, ("log", 1.0): 0.0}.get((name, x))
        if end is not None and not (name == "sqrt" and math.copysign(1.0, x) < 0):
            return V("f", end, 4 * EPS * abs(end))
    if name in ("arcsin", "arccos", "arctanh") and not (abs(x) <= 1 - MARGIN):
        raise OOD("function domain")
    if name == "arccosh" and not x >= 1 + MARGIN:
        raise OOD("function domain")
    if name in ("log", "sqrt") and not x >= MARGIN:
        raise OOD("function domain")
    if name == "tan" and abs(math.cos(x)) < 1e-3:
        raise OOD("pole")
    if name in ("exp", "sinh", "cosh") and abs(x) > 300:
        raise OOD("overflow")
    if name in ("sin", "cos", "tan") and abs(x) > 1e6:
        raise OOD("huge trigonometric argument")
    try:
        r = _f_real(name, x)
    except (ValueError, OverflowError):
        raise OOD("function domain")
    d = _deriv(name, x)
    ea = a.e + _bigint_err(a)
    return chk(V("f", r, d * ea * 1.5 + 8 * EPS * max(abs(r), abs(x) * d)))


def tolerance(ref):
    """Comparison tolerance for a delivered value against reference `ref`:
    the propagated bound, never below the relative 1e-12 the statement grants."""
    z = abs(complex(ref.v))
    return max(4 * ref.e, 1e-12 * z, 1e-300)
