#!/bin/bash
# run every check of MANIFEST.json at a tier; print one line per check
tier=${1:-quick}
cd "$(dirname "$0")/.."
for i in 01 02 03 04 05 06 07 08 09 10 11 12 13 14 15 16 17 18 19; do
  s=$(date +%s)
  out=$(timeout 7200 /venv/bin/python -m bbverif check C$i --tier $tier 2>&1); rc=$?
  e=$(date +%s)
  echo "C$i rc=$rc $((e-s))s :: $(echo "$out" | grep -v '^KNOWN-FINDING' | tail -1 | cut -c1-200)"
  echo "$out" | grep -E '^(VIOLATION|INCONCLUSIVE)' | cut -c1-300
done
