#!/venv/bin/python
"""Copy confirmed seeded changes (patch, demonstration, meta) into /verif/seeded/<id>/.
usage: keep_seeded.py <eval log> ..."""
import json, os, shutil, sys
VERIF = os.path.dirname(os.path.dirname(os.path.abspath(__file__)))
for log in sys.argv[1:]:
    for ln in open(log):
        ln = ln.strip()
        if "{" not in ln or ln.startswith("WARNING"):
            continue
        i = ln.index("{")
        tag = ln[:i].strip()
        try:
            d = json.loads(ln[i:])
        except ValueError:
            continue
        if "checks" not in d:
            continue
        pid, var = tag[:3], tag[3:]
        src = {"A": "/tmp/mut_%s_out", "B": "/tmp/mut_%s_out", "C": "/tmp/mut2_%s_out", "D": "/tmp/mut2_%s_out"}.get(var, "/tmp/mut3_%s_out" if var in "EF" else ("/tmp/mut4_%s_out" if var in "GH" else ("/tmp/mut5_%s_out" if var in "IJ" else ("/tmp/mut6_%s_out" if var in "KL" else "/tmp/mut7_%s_out")))) % pid
        confirmed = d.get("baseline_ok") and d.get("demo_with_change_rc") == 1 and d.get("demo_without_change_rc") == 0
        if not confirmed:
            print(tag, "NOT confirmed:", d.get("baseline"), d.get("demo_with_change_rc"), d.get("demo_without_change_rc"))
            continue
        dst = os.path.join(VERIF, "seeded", "%s-%s" % (pid, var))
        os.makedirs(dst, exist_ok=True)
        shutil.copy(os.path.join(src, "patch_%s.diff" % var), os.path.join(dst, "patch.diff"))
        shutil.copy(os.path.join(src, "demo_%s.py" % var), os.path.join(dst, "demo.py"))
        try:
            meta = json.load(open(os.path.join(src, "meta_%s.json" % var)))
        except Exception:
            meta = {}
        old = {}
        if os.path.exists(os.path.join(dst, "meta.json")):
            old = json.load(open(os.path.join(dst, "meta.json")))
        res = dict(old.get("detected_by", {}))
        for c, v in d["checks"].items():
            res[c] = {"tier": d.get("tier"), "exit": v["rc"], "mechanism": (v["mechanisms"] or v["inconclusive"] or [""])[0][:300]}
        hist = old.get("history")
        out = {
            "id": "%s-%s" % (pid, var),
            "breaks_property": pid,
            "summary": meta.get("summary"),
            "needs_to_manifest": meta.get("needs_to_manifest") or meta.get("needs"),
            "author": "independent sub-agent given only the property text and a scratch worktree",
            "author_ran": meta.get("author_ran") or meta.get("ran"),
            "confirmed_here": {"baseline_467_still_pass": True, "demo_exit_with_change": 1, "demo_exit_without_change": 0,
                               "how": "tools/mutant.py: patch applied in a scratch worktree outside /repo and /verif, tools/baseline_off.py, demo, checks with BBVERIF_REPO=<worktree>, patch reverted, demo again",
                               "note": "the demonstration asserts that blackbird is imported from the scratch worktree %s" % (src[:-4]),
                               "base_commit": d.get("base")},
            "detected_by": res,
        }
        if hist:
            out["history"] = hist
        json.dump(out, open(os.path.join(dst, "meta.json"), "w"), indent=1)
        print(tag, "kept;", {c: v["exit"] for c, v in res.items()})
