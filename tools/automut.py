#!/venv/bin/python
"""Mutation survey: how many small, mechanical changes to the package that the
repository's own test suite does not notice do the checks notice?

  automut.py list                         enumerate mutation points (JSON lines on stdout)
  automut.py run OUT.jsonl [--jobs N] [--only FILE] [--limit K] [--stride S]
  automut.py rerun OUT.jsonl IN.jsonl     full quick tier for the survivors of IN
  automut.py table OUT.jsonl              markdown summary

Operators (AST level, one change per mutant): comparison and arithmetic operator
swaps, and/or swap, `not` removed, integer constant +1, True/False swapped,
removal of a wrapping call (sorted, list, set, tuple, copy, deepcopy, int, float,
str, abs), deletion of a call statement or augmented assignment, break/continue
swapped.  Generated parser/lexer files are not mutated (C14 compares them with
the grammar structurally; round 1-4 of the hand-written changes cover them).

Every mutant lives in a scratch copy of the repository under --scratch (default
/tmp/bbv_automut), never in /repo.  Stage 1: the repository's baseline tests
(tools/baseline_off.py); a mutant they reject is of no interest here.  Stage 2:
the checks mapped to the mutated function, with a tenth of the quick budget and
two workers, stopping at the first violation.  `rerun` gives survivors the full
quick tier of the mapped checks and a tenth-budget run of all the others.
"""
import argparse
import ast
import concurrent.futures
import copy
import json
import os
import shutil
import subprocess
import sys
import time

VERIF = os.path.dirname(os.path.dirname(os.path.abspath(__file__)))
REPO = "/repo"
PKG = "blackbird_python/blackbird"
FILES = ["listener.py", "auxiliary.py", "program.py", "utils.py", "error.py", "__init__.py"]
WRAPPERS = {"sorted", "list", "set", "tuple", "copy", "deepcopy", "int", "float", "str", "abs"}
CMP = {ast.Eq: ast.NotEq, ast.NotEq: ast.Eq, ast.Lt: ast.LtE, ast.LtE: ast.Lt, ast.Gt: ast.GtE, ast.GtE: ast.Gt,
       ast.In: ast.NotIn, ast.NotIn: ast.In, ast.Is: ast.IsNot, ast.IsNot: ast.Is}
BIN = {ast.Add: ast.Sub, ast.Sub: ast.Add, ast.Mult: ast.Div, ast.Div: ast.Mult, ast.Pow: ast.Mult, ast.Mod: ast.Mult, ast.FloorDiv: ast.Div}

# mutated function -> checks, most specific first
MAP = [
    ("error.py", "", ["C10", "C11"]),
    ("__init__.py", "", ["C18", "C07", "C10", "C01", "C12"]),
    ("utils.py", "match_template", ["C17", "C13"]),
    ("utils.py", "", ["C16", "C13", "C17"]),
    ("program.py", "__call__", ["C04", "C13", "C07", "C17"]),
    ("program.py", "substitute", ["C04", "C13", "C07"]),
    ("program.py", "serialize", ["C01", "C09", "C15", "C19"]),
    ("program.py", "_format_value", ["C01", "C09", "C19"]),
    ("program.py", "numpy_to_blackbird", ["C09", "C01", "C15"]),
    ("program.py", "_print", ["C01", "C09"]),
    ("program.py", "_starts_with_power", ["C01", "C09"]),
    ("program.py", "sympy_to_blackbird", ["C01", "C09", "C08"]),
    ("program.py", "", ["C02", "C01", "C09", "C13", "C04"]),
    ("auxiliary.py", "_get_arguments", ["C02", "C11", "C08", "C04"]),
    ("auxiliary.py", "_literal", ["C02", "C06"]),
    ("auxiliary.py", "", ["C03", "C02", "C05", "C08", "C04", "C11", "C15"]),
    ("listener.py", "RegRefTransform", ["C08", "C16", "C19", "C01"]),
    ("listener.py", "exitInclude", ["C07", "C12", "C11"]),
    ("listener.py", "exitExpressionvar", ["C05", "C11", "C02", "C04", "C15"]),
    ("listener.py", "exitArrayvar", ["C05", "C11", "C04", "C15", "C02"]),
    ("listener.py", "exitForloop", ["C06", "C11", "C02"]),
    ("listener.py", "enterForloop", ["C06", "C11"]),
    ("listener.py", "exitStatement", ["C02", "C07", "C08", "C06", "C11", "C15"]),
    ("listener.py", "exitProgram", ["C02", "C04", "C15", "C12", "C01"]),
    ("listener.py", "parse", ["C12", "C18", "C10", "C02"]),
    ("listener.py", "is_ptype", ["C15", "C01", "C04"]),
    ("listener.py", "", ["C02", "C12", "C07", "C05", "C15", "C10"]),
]
ALL = ["C%02d" % i for i in range(1, 20) if i != 14]


def checks_for(fname, func):
    for f, fn, cs in MAP:
        if f == fname and (fn == "" or fn in func):
            return cs
    return ["C02"]


class Points(ast.NodeVisitor):
    """Enumerates mutation points; with `target` set, applies that one."""

    def __init__(self, target=None):
        self.n = 0
        self.target = target
        self.points = []
        self.stack = []
        self.in_raise = 0
        self.applied = None

    def hit(self, node, what):
        k = self.n
        self.n += 1
        self.points.append({"index": k, "line": getattr(node, "lineno", 0), "func": ".".join(self.stack), "what": what})
        return k == self.target

    def generic_visit(self, node):
        for field, old in ast.iter_fields(node):
            if isinstance(old, list):
                new = []
                for v in old:
                    if isinstance(v, ast.AST):
                        v = self.visit(v)
                        if v is None:
                            continue
                    new.append(v)
                old[:] = new
            elif isinstance(old, ast.AST):
                new = self.visit(old)
                setattr(node, field, new)
        return node

    def visit(self, node):
        m = getattr(self, "visit_" + type(node).__name__, None)
        return m(node) if m else self.generic_visit(node)

    def _scope(self, node):
        self.stack.append(node.name)
        # skip the docstring
        body = node.body
        if body and isinstance(body[0], ast.Expr) and isinstance(getattr(body[0], "value", None), ast.Constant) and isinstance(body[0].value.value, str):
            rest = body[1:]
            node.body = body[:1]
            keep = []
            for st in rest:
                r = self.visit(st)
                if r is not None:
                    keep.append(r)
            node.body = body[:1] + (keep or [ast.Pass()])
        else:
            self.generic_visit(node)
            if not node.body:
                node.body = [ast.Pass()]
        self.stack.pop()
        return node

    visit_FunctionDef = _scope
    visit_ClassDef = _scope

    def visit_Raise(self, node):
        return node  # messages and exception construction are not mutated

    def visit_Compare(self, node):
        self.generic_visit(node)
        for i, op in enumerate(node.ops):
            if type(op) in CMP and self.hit(node, "compare %s -> %s" % (type(op).__name__, CMP[type(op)].__name__)):
                node.ops[i] = CMP[type(op)]()
        return node

    def visit_BinOp(self, node):
        self.generic_visit(node)
        if isinstance(node.op, ast.Mod) and isinstance(node.left, ast.Constant) and isinstance(node.left.value, str):
            return node  # string formatting
        if isinstance(node.left, ast.Constant) and isinstance(node.left.value, str) or isinstance(node.right, ast.Constant) and isinstance(node.right.value, str):
            return node  # string concatenation
        if type(node.op) in BIN and self.hit(node, "binop %s -> %s" % (type(node.op).__name__, BIN[type(node.op)].__name__)):
            node.op = BIN[type(node.op)]()
        return node

    def visit_BoolOp(self, node):
        self.generic_visit(node)
        other = ast.Or if isinstance(node.op, ast.And) else ast.And
        if self.hit(node, "boolop %s -> %s" % (type(node.op).__name__, other.__name__)):
            node.op = other()
        return node

    def visit_UnaryOp(self, node):
        self.generic_visit(node)
        if isinstance(node.op, ast.Not) and self.hit(node, "not removed"):
            return node.operand
        if isinstance(node.op, ast.USub) and not isinstance(node.operand, ast.Constant) and self.hit(node, "unary minus removed"):
            return node.operand
        return node

    def visit_Constant(self, node):
        v = node.value
        if isinstance(v, bool):
            if self.hit(node, "constant %r -> %r" % (v, not v)):
                return ast.copy_location(ast.Constant(not v), node)
        elif isinstance(v, int):
            if self.hit(node, "constant %r -> %r" % (v, v + 1)):
                return ast.copy_location(ast.Constant(v + 1), node)
            if v > 0 and self.hit(node, "constant %r -> %r" % (v, v - 1)):
                return ast.copy_location(ast.Constant(v - 1), node)
        return node

    def visit_Call(self, node):
        self.generic_visit(node)
        name = node.func.id if isinstance(node.func, ast.Name) else (node.func.attr if isinstance(node.func, ast.Attribute) else None)
        if name in WRAPPERS and len(node.args) == 1 and not node.keywords and not isinstance(node.args[0], ast.Starred):
            if self.hit(node, "%s(x) -> x" % name):
                return node.args[0]
        return node

    def visit_Expr(self, node):
        if isinstance(node.value, ast.Call):
            if self.hit(node, "statement deleted: %s" % ast.unparse(node)[:60]):
                return None
        return self.generic_visit(node)

    def visit_AugAssign(self, node):
        if self.hit(node, "statement deleted: %s" % ast.unparse(node)[:60]):
            return None
        return self.generic_visit(node)

    def visit_Break(self, node):
        if self.hit(node, "break -> continue"):
            return ast.copy_location(ast.Continue(), node)
        return node

    def visit_Continue(self, node):
        if self.hit(node, "continue -> break"):
            return ast.copy_location(ast.Break(), node)
        return node

    def visit_If(self, node):
        self.generic_visit(node)
        if not node.body:
            node.body = [ast.Pass()]
        return node

    visit_For = visit_While = visit_With = visit_Try = visit_If

    def visit_ExceptHandler(self, node):
        self.generic_visit(node)
        if not node.body:
            node.body = [ast.Pass()]
        return node


class Points2(Points):
    """Second operator family: a type dropped from an isinstance tuple, an `if`
    forced either way, the two positional arguments of a call swapped, a returned
    value replaced by None, a string compared against replaced by another string,
    slice bounds moved by one, an `else`/`elif` branch emptied."""

    def visit_Compare(self, node):
        self.generic_visit(node)
        for i, c in enumerate(node.comparators):
            if isinstance(c, ast.Constant) and isinstance(c.value, str) and self.hit(node, "compared string %r -> %r" % (c.value, c.value + "x")):
                node.comparators[i] = ast.copy_location(ast.Constant(c.value + "x"), c)
        return node

    def visit_BinOp(self, node):
        return self.generic_visit(node)

    def visit_BoolOp(self, node):
        self.generic_visit(node)
        if len(node.values) >= 2 and self.hit(node, "last operand of %s dropped" % type(node.op).__name__):
            return node.values[0] if len(node.values) == 2 else ast.copy_location(ast.BoolOp(node.op, node.values[:-1]), node)
        return node

    def visit_UnaryOp(self, node):
        return self.generic_visit(node)

    def visit_Constant(self, node):
        return node

    def visit_Expr(self, node):
        return self.generic_visit(node)

    def visit_AugAssign(self, node):
        return self.generic_visit(node)

    def visit_Break(self, node):
        return node

    def visit_Continue(self, node):
        return node

    def visit_Call(self, node):
        self.generic_visit(node)
        name = node.func.id if isinstance(node.func, ast.Name) else (node.func.attr if isinstance(node.func, ast.Attribute) else None)
        if name == "isinstance" and len(node.args) == 2 and isinstance(node.args[1], ast.Tuple) and len(node.args[1].elts) >= 2:
            for k in range(len(node.args[1].elts)):
                if self.hit(node, "isinstance: %s dropped from the tuple" % ast.unparse(node.args[1].elts[k])):
                    node.args[1] = ast.copy_location(ast.Tuple([e for j, e in enumerate(node.args[1].elts) if j != k], ast.Load()), node.args[1])
                    break
        elif len(node.args) == 2 and not node.keywords and not any(isinstance(a, ast.Starred) for a in node.args) and name not in ("isinstance", "format", "getattr", "hasattr", "range"):
            if self.hit(node, "arguments of %s swapped" % name):
                node.args = [node.args[1], node.args[0]]
        return node

    def visit_If(self, node):
        self.generic_visit(node)
        if self.hit(node, "if forced True: %s" % ast.unparse(node.test)[:50]):
            node.test = ast.copy_location(ast.Constant(True), node.test)
        elif self.hit(node, "if forced False: %s" % ast.unparse(node.test)[:50]):
            node.test = ast.copy_location(ast.Constant(False), node.test)
        elif node.orelse and not (len(node.orelse) == 1 and isinstance(node.orelse[0], ast.If)) and self.hit(node, "else branch emptied"):
            node.orelse = []
        if not node.body:
            node.body = [ast.Pass()]
        return node

    def visit_Return(self, node):
        self.generic_visit(node)
        if node.value is not None and not (isinstance(node.value, ast.Constant) and node.value.value is None) and self.hit(node, "return None instead of %s" % ast.unparse(node.value)[:40]):
            node.value = ast.copy_location(ast.Constant(None), node.value)
        return node

    def visit_Slice(self, node):
        self.generic_visit(node)
        for attr in ("lower", "upper"):
            v = getattr(node, attr)
            if isinstance(v, ast.Constant) and isinstance(v.value, int) and self.hit(node, "slice %s %d -> %d" % (attr, v.value, v.value + 1)):
                setattr(node, attr, ast.copy_location(ast.Constant(v.value + 1), v))
            elif isinstance(v, ast.UnaryOp) and isinstance(v.op, ast.USub) and isinstance(v.operand, ast.Constant) and self.hit(node, "slice %s -%d -> -%d" % (attr, v.operand.value, v.operand.value + 1)):
                v.operand = ast.copy_location(ast.Constant(v.operand.value + 1), v.operand)
        return node

    def visit_Subscript(self, node):
        self.generic_visit(node)
        return node


FAMILY = {1: Points, 2: Points2}


def read_source(fname):
    with open(os.path.join(REPO, PKG, fname), newline="") as f:
        return f.read().replace("\r\n", "\n")


def enumerate_points(ops=1):
    out = []
    for fname in FILES:
        tree = ast.parse(read_source(fname))
        p = FAMILY[ops]()
        p.visit(tree)
        for pt in p.points:
            pt["file"] = fname
            pt["ops"] = ops
            out.append(pt)
    return out


def mutate(fname, index, ops=1):
    tree = ast.parse(read_source(fname))
    p = FAMILY[ops](target=index)
    tree = p.visit(tree)
    ast.fix_missing_locations(tree)
    return ast.unparse(tree) + "\n"


def sh(cmd, env=None, timeout=3600, cwd=None):
    e = dict(os.environ)
    e.update(env or {})
    try:
        r = subprocess.run(cmd, env=e, cwd=cwd, stdout=subprocess.PIPE, stderr=subprocess.STDOUT, text=True, timeout=timeout)
        return r.returncode, r.stdout
    except subprocess.TimeoutExpired as ex:
        return 124, (ex.stdout or "") if isinstance(ex.stdout, str) else ""


def slot_dir(scratch, slot):
    d = os.path.join(scratch, "slot%d" % slot)
    if not os.path.isdir(d):
        os.makedirs(scratch, exist_ok=True)
        shutil.copytree(REPO, d, ignore=shutil.ignore_patterns(".git", "__pycache__", "*.pyc", "build", "*.egg-info"))
    return d


def run_checks(d, checks, scale, workers, slot, stop=True):
    res = {}
    for c in checks:
        t0 = time.time()
        env = {"BBVERIF_REPO": d, "PYTHONPATH": VERIF, "BBVERIF_BUDGET_SCALE": str(scale), "BBVERIF_EVIDENCE_DIR": "/tmp/bbv_automut_ev/%d" % slot,
               "BBVERIF_REPLAY_DIR": "/tmp/bbv_automut_ev/%d/replays" % slot, "VERIF_SEED": "0"}
        rc, o = sh(["/venv/bin/python", "-m", "bbverif", "check", c, "--tier", "quick", "--workers", str(workers)], env=env, cwd=VERIF, timeout=2400)
        mech = [ln.strip()[:200] for ln in o.split("\n") if ln.startswith("  mechanism=")]
        res[c] = {"rc": rc, "mechanisms": mech[:2], "s": round(time.time() - t0)}
        if rc == 1 and stop:
            break
    return res


def one(args):
    pt, scratch, slot, scale, workers = args
    d = slot_dir(scratch, slot)
    target = os.path.join(d, PKG, pt["file"])
    orig = os.path.join(REPO, PKG, pt["file"])
    out = dict(pt)
    try:
        src = mutate(pt["file"], pt["index"], pt.get("ops", 1))
        try:
            compile(src, pt["file"], "exec")
        except SyntaxError as e:
            out["result"] = "invalid"
            return out
        with open(target, "w") as f:
            f.write(src)
        rc, o = sh(["/venv/bin/python", os.path.join(VERIF, "tools", "baseline_off.py")], env={"BBVERIF_REPO": d}, timeout=900)
        out["tests"] = o.strip().split("\n")[-1][:120]
        if rc != 0:
            out["result"] = "tests"
            return out
        checks = checks_for(pt["file"], pt["func"])
        out["checks"] = run_checks(d, checks, scale, workers, slot)
        caught = [c for c, r in out["checks"].items() if r["rc"] == 1]
        out["result"] = "caught:" + caught[0] if caught else "survived"
        return out
    finally:
        shutil.copyfile(orig, target)


def cmd_run(a):
    pts = enumerate_points(a.ops)
    if a.only:
        pts = [p for p in pts if p["file"] == a.only]
    if a.stride > 1:
        pts = pts[a.offset::a.stride]
    if a.limit:
        pts = pts[:a.limit]
    done = set()
    if os.path.exists(a.out):
        for ln in open(a.out):
            r = json.loads(ln)
            done.add((r["file"], r["index"]))
    pts = [p for p in pts if (p["file"], p["index"]) not in done]
    print("%d mutants to run" % len(pts), file=sys.stderr)
    # identity sanity: the unparsed but unmutated sources must behave like the originals
    free = list(range(a.jobs))
    with concurrent.futures.ThreadPoolExecutor(a.jobs) as ex, open(a.out, "a") as f:
        futs = {}
        it = iter(pts)

        def submit():
            try:
                p = next(it)
            except StopIteration:
                return False
            slot = free.pop()
            futs[ex.submit(one, (p, a.scratch, slot, a.scale, a.workers))] = slot
            return True

        for _ in range(a.jobs):
            if not submit():
                break
        while futs:
            for fu in concurrent.futures.as_completed(list(futs)):
                slot = futs.pop(fu)
                free.append(slot)
                try:
                    r = fu.result()
                except Exception as e:  # noqa
                    r = {"result": "tool-error", "error": repr(e)}
                f.write(json.dumps(r) + "\n")
                f.flush()
                submit()
                break


def cmd_rerun(a):
    rows = [json.loads(ln) for ln in open(a.inp)]
    surv = [r for r in rows if r.get("result") == "survived"]
    if os.path.exists(a.out):
        done = {(json.loads(ln).get("file"), json.loads(ln).get("index")) for ln in open(a.out)}
        surv = [r for r in surv if (r["file"], r["index"]) not in done]
    print("%d survivors" % len(surv), file=sys.stderr)

    def again(args):
        r, slot = args
        d = slot_dir(a.scratch, slot)
        target = os.path.join(d, PKG, r["file"])
        orig = os.path.join(REPO, PKG, r["file"])
        out = {k: r[k] for k in ("file", "index", "line", "func", "what")}
        out["ops"] = r.get("ops", 1)
        try:
            with open(target, "w") as f:
                f.write(mutate(r["file"], r["index"], r.get("ops", 1)))
            mapped = checks_for(r["file"], r["func"])
            res = run_checks(d, mapped, 1, a.workers, slot)
            if not any(v["rc"] == 1 for v in res.values()):
                res.update(run_checks(d, [c for c in ALL if c not in mapped], 0.1, a.workers, slot))
            out["checks"] = res
            caught = [c for c, v in res.items() if v["rc"] == 1]
            out["result"] = "caught:" + caught[0] if caught else "survived"
            return out
        finally:
            shutil.copyfile(orig, target)

    with concurrent.futures.ThreadPoolExecutor(a.jobs) as ex, open(a.out, "a") as f:
        slots = list(range(a.jobs))
        pending = list(surv)
        futs = {}
        while pending or futs:
            while pending and slots:
                s = slots.pop()
                futs[ex.submit(again, (pending.pop(0), s))] = s
            fu = next(concurrent.futures.as_completed(list(futs)))
            slots.append(futs.pop(fu))
            try:
                f.write(json.dumps(fu.result()) + "\n")
            except Exception as e:  # noqa
                f.write(json.dumps({"result": "tool-error", "error": repr(e)}) + "\n")
            f.flush()


def cmd_table(a):
    rows = {}
    for path in a.paths:
        for ln in open(path):
            r = json.loads(ln)
            if "file" in r:
                rows[(r["file"], r["index"])] = r if r.get("result") != "survived" or (r["file"], r["index"]) not in rows else rows[(r["file"], r["index"])]
                if r.get("result", "").startswith("caught") or (r["file"], r["index"]) not in rows:
                    rows[(r["file"], r["index"])] = r
    by = {}
    for r in rows.values():
        k = r["file"]
        b = by.setdefault(k, {"total": 0, "invalid": 0, "tests": 0, "caught": 0, "survived": 0})
        b["total"] += 1
        res = r.get("result", "")
        b["caught" if res.startswith("caught") else res if res in b else "survived"] += 1
    print("| file | mutants | rejected by the repository's tests | pass the tests | of those caught by a check | survived |")
    print("|---|---|---|---|---|---|")
    tot = {"total": 0, "invalid": 0, "tests": 0, "caught": 0, "survived": 0}
    for k in sorted(by):
        b = by[k]
        for x in tot:
            tot[x] += b[x]
        print("| %s | %d | %d | %d | %d | %d |" % (k, b["total"] - b["invalid"], b["tests"], b["caught"] + b["survived"], b["caught"], b["survived"]))
    print("| all | %d | %d | %d | %d | %d |" % (tot["total"] - tot["invalid"], tot["tests"], tot["caught"] + tot["survived"], tot["caught"], tot["survived"]))
    if a.survivors:
        for r in sorted(rows.values(), key=lambda r: (r["file"], r["line"])):
            if r.get("result") == "survived":
                print("- %s:%d %s: %s" % (r["file"], r["line"], r["func"], r["what"]))


def main():
    ap = argparse.ArgumentParser()
    sub = ap.add_subparsers(dest="cmd", required=True)
    ls = sub.add_parser("list")
    ls.add_argument("--ops", type=int, default=1, choices=[1, 2])
    r = sub.add_parser("run")
    r.add_argument("out")
    r.add_argument("--jobs", type=int, default=8)
    r.add_argument("--workers", type=int, default=2)
    r.add_argument("--scale", type=float, default=0.1)
    r.add_argument("--only")
    r.add_argument("--limit", type=int, default=0)
    r.add_argument("--stride", type=int, default=1)
    r.add_argument("--offset", type=int, default=0)
    r.add_argument("--scratch", default="/tmp/bbv_automut")
    r.add_argument("--ops", type=int, default=1, choices=[1, 2])
    rr = sub.add_parser("rerun")
    rr.add_argument("out")
    rr.add_argument("inp")
    rr.add_argument("--jobs", type=int, default=4)
    rr.add_argument("--workers", type=int, default=4)
    rr.add_argument("--scratch", default="/tmp/bbv_automut")
    t = sub.add_parser("table")
    t.add_argument("paths", nargs="+")
    t.add_argument("--survivors", action="store_true")
    a = ap.parse_args()
    if a.cmd == "list":
        for p in enumerate_points(a.ops):
            print(json.dumps(p))
    elif a.cmd == "run":
        cmd_run(a)
    elif a.cmd == "rerun":
        cmd_rerun(a)
    else:
        cmd_table(a)


if __name__ == "__main__":
    main()
