#!/venv/bin/python
"""Print the markdown table of DESIGN.md section 9 from seeded/*/meta.json."""
import glob, json, os
VERIF = os.path.dirname(os.path.dirname(os.path.abspath(__file__)))
rows = []
for p in sorted(glob.glob(os.path.join(VERIF, "seeded", "*", "meta.json"))):
    d = json.load(open(p))
    det = ", ".join("%s%s" % (c, "" if v["exit"] == 1 else " (missed)") for c, v in sorted(d["detected_by"].items()) if v["exit"] == 1 or c == d["breaks_property"])
    mech = d["detected_by"].get(d["breaks_property"], {}).get("mechanism", "")
    mech = mech.replace("mechanism=", "").split(" count=")[0][:70]
    summ = (d.get("summary") or "").replace("|", "/").replace("\n", " ")
    if len(summ) > 150:
        summ = summ[:147] + "..."
    needs = (d.get("needs_to_manifest") or "").replace("|", "/").replace("\n", " ")
    if len(needs) > 130:
        needs = needs[:127] + "..."
    rows.append("| %s | %s | %s | %s | `%s`%s |" % (d["id"], summ, needs, det, mech, " †" if d.get("history") else ""))
print("| id | what the change does | what it needs to manifest | caught by (quick tier) | mechanism key reported |")
print("|---|---|---|---|---|")
print("\n".join(rows))
