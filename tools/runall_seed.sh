#!/bin/bash
# run every check at a tier under a given VERIF_SEED: runall_seed.sh <tier> <seed>
cd "$(dirname "$0")/.."
VERIF_SEED=${2:-1} exec tools/runall.sh ${1:-quick}
