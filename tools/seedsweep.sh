#!/bin/bash
# quick tier under several VERIF_SEED values; prints only problems
cd "$(dirname "$0")/.."
for seed in ${@:-1 2 3}; do
  for i in 01 02 03 04 05 06 07 08 09 10 11 12 13 14 15 16 17 18 19; do
    out=$(VERIF_SEED=$seed timeout 3600 /venv/bin/python -m bbverif check C$i --tier quick 2>&1); rc=$?
    echo "seed=$seed C$i rc=$rc :: $(echo "$out" | grep -v '^KNOWN-FINDING' | tail -1 | cut -c1-160)"
    echo "$out" | grep -E '^(VIOLATION|INCONCLUSIVE|  mechanism)' | cut -c1-400
  done
done
