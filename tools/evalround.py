#!/venv/bin/python
"""Evaluate the changes of one round of sub-agents against the checks.

usage: evalround.py <prefix> <log> <variants> [ids ...]     e.g. evalround.py /tmp/mut6_ /tmp/eval6.log KL C03 C09

For every property id (default: all with deliverables) and variant letter, runs tools/mutant.py with the worktree
<prefix><id>, the patch and demonstration in <prefix><id>_out, and the property's own check; appends one line
'<id><variant> <json>' to the log (the format tools/keep_seeded.py reads).  Three at a time."""
import glob, os, subprocess, sys
from concurrent.futures import ThreadPoolExecutor

prefix, log, variants = sys.argv[1:4]
ids = sys.argv[4:] or sorted(os.path.basename(p)[len(os.path.basename(prefix)):-4] for p in glob.glob(prefix + "*_out"))
HERE = os.path.dirname(os.path.abspath(__file__))
done = set()
if os.path.exists(log):
    done = {ln.split(" ", 1)[0] for ln in open(log) if "{" in ln}


def one(pid):
    out = []
    for v in variants:
        tag = pid + v
        patch, demo = "%s%s_out/patch_%s.diff" % (prefix, pid, v), "%s%s_out/demo_%s.py" % (prefix, pid, v)
        if tag in done or not (os.path.exists(patch) and os.path.exists(demo)):
            continue
        p = subprocess.run(["/venv/bin/python", os.path.join(HERE, "mutant.py"), prefix + pid, patch, demo, pid],
                           stdout=subprocess.PIPE, stderr=subprocess.DEVNULL, text=True)
        line = [ln for ln in p.stdout.split("\n") if ln.startswith("{")]
        with open(log, "a") as f:
            f.write("%s %s\n" % (tag, line[-1] if line else '{"error": "no output"}'))
        out.append(tag)
    return out


with ThreadPoolExecutor(3) as ex:
    for r in ex.map(one, ids):
        print("evaluated", r, flush=True)
