#!/venv/bin/python
"""Evaluate a seeded change against the checks.

usage: mutant.py <worktree> <patch.diff> <demo.py> <check ids, comma separated> [--tier quick]

Applies the patch in <worktree> (a scratch git worktree of /repo outside /repo and
/verif), runs the repository baseline, the demonstration (must exit 1), the given
checks with BBVERIF_REPO=<worktree>, then reverts the worktree and runs the
demonstration again (must exit 0).  Prints one JSON line with the outcome.
"""
import json, os, subprocess, sys, time

wt, patch, demo, checks = sys.argv[1:5]
tier = sys.argv[6] if len(sys.argv) > 6 and sys.argv[5] == "--tier" else "quick"
VERIF = os.path.dirname(os.path.dirname(os.path.abspath(__file__)))
out = {"patch": patch, "tier": tier}


def run(cmd, env=None, cwd=None, timeout=3600):
    e = dict(os.environ)
    e.update(env or {})
    p = subprocess.run(cmd, cwd=cwd, env=e, stdout=subprocess.PIPE, stderr=subprocess.STDOUT, text=True, timeout=timeout)
    return p.returncode, p.stdout


subprocess.run(["git", "-C", wt, "reset", "-q", "--hard"], check=True)
# bring the scratch worktree to /repo's current HEAD, so that the change is judged on top of the tree being verified
head = subprocess.check_output(["git", "-C", "/repo", "rev-parse", "HEAD"], text=True).strip()
subprocess.run(["git", "-C", wt, "checkout", "-q", "--detach", head], check=True)
out["base"] = head[:7]
rc, o = run(["git", "-C", wt, "apply", patch])
if rc:
    rc, o = run(["git", "-C", wt, "apply", "--3way", patch])
if rc:
    subprocess.run(["git", "-C", wt, "reset", "-q", "--hard"], check=True)
    print(json.dumps({"error": "patch does not apply", "output": o[-400:]}))
    sys.exit(2)
try:
    rc, o = run(["/venv/bin/python", os.path.join(VERIF, "tools", "baseline_off.py")], env={"BBVERIF_REPO": wt})
    out["baseline"] = o.strip().split("\n")[0]
    out["baseline_ok"] = rc == 0
    rc, o = run(["/venv/bin/python", demo], env={"PYTHONPATH": os.path.join(wt, "blackbird_python")}, timeout=600)
    out["demo_with_change_rc"] = rc
    out["demo_output"] = o.strip()[-300:]
    res = {}
    for c in [x for x in checks.split(",") if x]:
        t0 = time.time()
        rc, o = run(["/venv/bin/python", "-m", "bbverif", "check", c, "--tier", tier], env={"BBVERIF_REPO": wt, "PYTHONPATH": VERIF, "BBVERIF_EVIDENCE_DIR": "/tmp/bbv_mutant_evidence", "BBVERIF_REPLAY_DIR": "/tmp/bbv_mutant_replays"}, cwd=VERIF, timeout=7200)
        mech = [ln.strip()[:260] for ln in o.split("\n") if ln.startswith("  mechanism=")]
        res[c] = {"rc": rc, "mechanisms": mech[:4], "inconclusive": [ln[:200] for ln in o.split("\n") if ln.startswith("INCONCLUSIVE")][:2], "s": round(time.time() - t0)}
    out["checks"] = res
finally:
    # reset, not checkout: a 3-way apply stages its result
    subprocess.run(["git", "-C", wt, "reset", "-q", "--hard"], check=True)
rc, o = run(["/venv/bin/python", demo], env={"PYTHONPATH": os.path.join(wt, "blackbird_python")}, timeout=600)
out["demo_without_change_rc"] = rc
print(json.dumps(out))
