#!/venv/bin/python
"""Regenerate /verif/MANIFEST.json from the check modules' own metadata."""
import importlib, json, os, sys
sys.path.insert(0, os.path.dirname(os.path.dirname(os.path.abspath(__file__))))
ALL = ["C%02d" % i for i in range(1, 20)]
PY = "/venv/bin/python"
checks = []
na = []
for pid in ALL:
    path = os.path.join(os.path.dirname(__file__), "..", "bbverif", "checks", pid.lower() + ".py")
    if not os.path.exists(path):
        na.append({"property_id": pid, "reason": "check not yet built in this commit (runtime monitoring applies; see DESIGN.md section " + pid + ")"})
        continue
    m = importlib.import_module("bbverif.checks." + pid.lower())
    checks.append({
        "property_id": pid,
        "quick_cmd": "%s -m bbverif check %s --tier quick" % (PY, pid),
        "thorough_cmd": "%s -m bbverif check %s --tier thorough" % (PY, pid),
        "evidence_file": "/verif/evidence/%s.json" % pid,
        "replay_cmd_template": "%s -m bbverif replay {path}" % PY,
        "engine": "bbverif",
        "level_claimed": {
            "category": m.LEVEL,
            "text": getattr(m, "LEVEL_TEXT", "Randomised runtime monitoring against an oracle: the property held on the executions this run produced (counts in the evidence), nothing beyond them is claimed."),
            "design_ref": "DESIGN.md section 2, " + pid,
        },
        "level_note": getattr(m, "LEVEL_NOTE", "; ".join(getattr(m, "ASSUMPTIONS", []))),
        "technique": m.TECHNIQUE,
    })
man = {
    "version": 1,
    "setup_cmd": "/venv/bin/python -m compileall -q /verif/bbverif && cd /verif && /venv/bin/python -m bbverif selftest",
    "hooks": {
        "guard": "BLACKBIRD_VERIF",
        "enable": "The check runner exports BLACKBIRD_VERIF=1 to its worker processes; the instrumentation (PEP 669 coverage monitor, call/state recorders) is installed from /verif into the imported blackbird modules of those processes only. No source file of the repository reads the variable and no hook code was added to the repository (source_commits is empty).",
        "baseline_off_cmd": "/venv/bin/python /verif/tools/baseline_off.py",
        "source_commits": [],
        "add_only": True,
    },
    "engines": [{
        "name": "bbverif",
        "path": "/verif/bbverif",
        "serves_properties": [c["property_id"] for c in checks],
        "kind_free_text": "Runtime monitoring harness in plain Python: generated hostile workloads run through the real package (imported from /repo's working tree) while monitors watch: reference-model monitors (grammar-derived lexer/Earley recogniser, independent interpreter with error bounds), metamorphic monitors, invariants on hooked state, offline checkers over recorded call histories, hash-seed sweeps. Worker subprocesses, three-valued verdicts, known-findings file.",
    }],
    "checks": checks,
    "not_applicable": na,
    "notes": "Compiler sanitizers, race detectors and valgrind have nothing to instrument here (pure Python, no threads, the C++ target cannot be built offline); every property is decided by monitors observing executions of the real Python package. Exit 2 + INCONCLUSIVE is used when a deciding monitor was not reached; it does not occur on the unchanged tree. Fixed and open defects: /verif/known_findings.json.",
}
with open(os.path.join(os.path.dirname(__file__), "..", "MANIFEST.json"), "w") as f:
    json.dump(man, f, indent=1)
    f.write("\n")
print("checks:", [c["property_id"] for c in checks], "not_applicable:", len(na))
