#!/venv/bin/python
"""Which lines of the package's hand-written modules did no check execute?

usage: BBVERIF_LINES_DIR=<dir> python -m bbverif check <ID> ...   (for every check)
       tools/uncovered.py <dir>

Prints, per function of the watched modules, the source lines that none of the runs found in <dir> executed, and per
check the number of lines only that check reached.  A diagnostic for widening workloads; not a verdict."""
import glob, json, os, sys
sys.path.insert(0, os.path.dirname(os.path.dirname(os.path.abspath(__file__))))
from bbverif import env, monitor

env.setup()
d = sys.argv[1]
hit = {}
per = {}
for p in sorted(glob.glob(os.path.join(d, "*.json"))):
    r = json.load(open(p))
    for fn, ls in r.items():
        hit.setdefault(fn, set()).update(ls)
        per.setdefault(os.path.basename(p), {}).setdefault(fn, set()).update(ls)
fl = monitor._function_lines()
pkg = env.repo_path("blackbird_python", "blackbird")
tot = miss = 0
for base, funcs in sorted(fl.items()):
    src = open(os.path.join(pkg, base), newline="").read().split("\n")
    for q, lines in sorted(funcs.items(), key=lambda kv: min(kv[1]) if kv[1] else 0):
        tot += len(lines)
        m = sorted(lines - hit.get(base, set()))
        miss += len(m)
        if m:
            print("%s:%s  %d/%d lines never executed" % (base, q, len(m), len(lines)))
            for ln in m:
                print("   %4d  %s" % (ln, src[ln - 1].rstrip()[:150]))
print("total: %d of %d lines never executed" % (miss, tot))
