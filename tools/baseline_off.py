#!/venv/bin/python
"""Run the repository's own test suite with the verification guard OFF and
compare the set of passing tests with the pinned baseline (stable_pass in
/root/.vp/BASELINE.json when present).  Exit 0 iff every baseline-stable test
still passes."""
import json, os, subprocess, sys, tempfile, xml.etree.ElementTree as ET

REPO = os.environ.get("BBVERIF_REPO", "/repo")
env = dict(os.environ)
env.pop("BLACKBIRD_VERIF", None)
env["PYTHONDONTWRITEBYTECODE"] = "1"
# the interpreter has /repo installed in development mode: for any other tree
# the package must come first on the path, or its tests would run against /repo
env["PYTHONPATH"] = os.path.join(REPO, "blackbird_python")
with tempfile.TemporaryDirectory() as d:
    xml = os.path.join(d, "r.xml")
    subprocess.run(
        ["/venv/bin/python", "-m", "pytest", "-q", "-p", "no:cacheprovider", "--timeout=900",
         "--continue-on-collection-errors", "--junitxml=" + xml],
        cwd=REPO, env=env, stdout=subprocess.DEVNULL, stderr=subprocess.DEVNULL)
    passed = set()
    for tc in ET.parse(xml).getroot().iter("testcase"):
        if not any(c.tag in ("failure", "error", "skipped") for c in tc):
            passed.add("%s::%s" % (tc.get("classname"), tc.get("name")))
want = None
try:
    want = set(json.load(open("/root/.vp/BASELINE.json"))["stable_pass"])
except Exception:
    pass
if want is None:
    print("baseline file not available; %d tests passed" % len(passed))
    sys.exit(0 if len(passed) >= 467 else 1)
def norm(s):
    # classname is dotted module path + class; baseline uses the same form
    return s
missing = sorted(want - passed)
print("passed=%d baseline=%d missing=%d extra=%d" % (len(passed), len(want), len(missing), len(passed - want)))
for m in missing[:20]:
    print("MISSING", m)
sys.exit(1 if missing else 0)
