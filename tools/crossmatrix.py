#!/venv/bin/python
"""Which checks notice which seeded change?  Every kept change of seeded/<id>/ is
applied in a scratch worktree of /repo (never in /repo) and *all* checks are run
against it at a fraction of the quick budget (the check of the property the
change was written against has its full-budget result in seeded/<id>/meta.json).

  crossmatrix.py run  OUT.jsonl [--jobs N] [--scale F] [--ids C01-A,C02-B]
  crossmatrix.py table OUT.jsonl        markdown matrix for DESIGN.md
"""
import argparse
import concurrent.futures
import glob
import json
import os
import subprocess
import sys
import time

VERIF = os.path.dirname(os.path.dirname(os.path.abspath(__file__)))
ALL = ["C%02d" % i for i in range(1, 20)]


def sh(cmd, env=None, timeout=3600, cwd=None):
    e = dict(os.environ)
    e.update(env or {})
    try:
        r = subprocess.run(cmd, env=e, cwd=cwd, stdout=subprocess.PIPE, stderr=subprocess.STDOUT, text=True, timeout=timeout)
        return r.returncode, r.stdout
    except subprocess.TimeoutExpired:
        return 124, ""


def worktree(slot):
    wt = "/tmp/bbv_xm_slot%d" % slot
    head = subprocess.check_output(["git", "-C", "/repo", "rev-parse", "HEAD"], text=True).strip()
    if not os.path.isdir(wt):
        subprocess.run(["git", "-C", "/repo", "worktree", "add", "-q", "--detach", wt, head], check=True)
    subprocess.run(["git", "-C", wt, "reset", "-q", "--hard"], check=True)
    subprocess.run(["git", "-C", wt, "checkout", "-q", "--detach", head], check=True)
    return wt


def one(args):
    sid, slot, scale, workers, own = args
    wt = worktree(slot)
    patch = os.path.join(VERIF, "seeded", sid, "patch.diff")
    out = {"id": sid}
    try:
        rc, o = sh(["git", "-C", wt, "apply", patch])
        if rc:
            rc, o = sh(["git", "-C", wt, "apply", "--3way", patch])
        if rc:
            out["error"] = "patch does not apply to the current tree"
            return out
        res = {}
        for c in ([sid[:3]] if own else ALL):
            t0 = time.time()
            env = {"BBVERIF_REPO": wt, "PYTHONPATH": VERIF, "BBVERIF_BUDGET_SCALE": str(scale), "BBVERIF_EVIDENCE_DIR": "/tmp/bbv_xm_ev/%d" % slot,
                   "BBVERIF_REPLAY_DIR": "/tmp/bbv_xm_ev/%d/replays" % slot, "VERIF_SEED": "0"}
            rc, o = sh(["/venv/bin/python", "-m", "bbverif", "check", c, "--tier", "quick", "--workers", str(workers)], env=env, cwd=VERIF, timeout=1800)
            mech = [ln.strip()[10:120] for ln in o.split("\n") if ln.startswith("  mechanism=")]
            res[c] = {"rc": rc, "mechanism": mech[0] if mech else "", "s": round(time.time() - t0)}
        out["checks"] = res
        return out
    finally:
        subprocess.run(["git", "-C", wt, "reset", "-q", "--hard"], check=True)


def cmd_run(a):
    ids = sorted(os.path.basename(os.path.dirname(p)) for p in glob.glob(os.path.join(VERIF, "seeded", "C*", "patch.diff")))
    if a.ids:
        ids = [i for i in ids if i in a.ids.split(",")]
    done = set()
    if os.path.exists(a.out):
        done = {json.loads(ln)["id"] for ln in open(a.out)}
    ids = [i for i in ids if i not in done]
    print("%d changes to run" % len(ids), file=sys.stderr)
    slots = list(range(a.jobs))
    futs = {}
    with concurrent.futures.ThreadPoolExecutor(a.jobs) as ex, open(a.out, "a") as f:
        pending = list(ids)
        while pending or futs:
            while pending and slots:
                s = slots.pop()
                futs[ex.submit(one, (pending.pop(0), s, a.scale, a.workers, a.own))] = s
            fu = next(concurrent.futures.as_completed(list(futs)))
            slots.append(futs.pop(fu))
            try:
                f.write(json.dumps(fu.result()) + "\n")
            except Exception as e:  # noqa
                f.write(json.dumps({"id": "?", "error": repr(e)}) + "\n")
            f.flush()
    for s in range(a.jobs):
        subprocess.run(["git", "-C", "/repo", "worktree", "remove", "--force", "/tmp/bbv_xm_slot%d" % s])


def cmd_table(a):
    rows = [json.loads(ln) for ln in open(a.out)]
    rows = sorted((r for r in rows if "checks" in r), key=lambda r: r["id"])
    print("| change | " + " | ".join(c[1:] for c in ALL) + " |")
    print("|---|" + "---|" * len(ALL))
    col = {c: 0 for c in ALL}
    for r in rows:
        cells = []
        for c in ALL:
            rc = r["checks"][c]["rc"]
            own = r["id"].startswith(c)
            cells.append(("**X**" if own else "x") if rc == 1 else ("?" if rc == 2 else ("**-**" if own else "")))
            col[c] += rc == 1
        print("| %s | %s |" % (r["id"], " | ".join(cells)))
    print("| caught | " + " | ".join(str(col[c]) for c in ALL) + " |")
    others = sum(1 for r in rows if any(v["rc"] == 1 for c, v in r["checks"].items() if not r["id"].startswith(c)))
    print("\n%d changes; %d also noticed by a check of another property" % (len(rows), others))


def main():
    ap = argparse.ArgumentParser()
    sub = ap.add_subparsers(dest="cmd", required=True)
    r = sub.add_parser("run")
    r.add_argument("out")
    r.add_argument("--jobs", type=int, default=8)
    r.add_argument("--workers", type=int, default=2)
    r.add_argument("--scale", type=float, default=0.2)
    r.add_argument("--ids")
    r.add_argument("--own", action="store_true", help="only the check of the property the change was written against")
    t = sub.add_parser("table")
    t.add_argument("out")
    a = ap.parse_args()
    cmd_run(a) if a.cmd == "run" else cmd_table(a)


if __name__ == "__main__":
    main()
